"""C03 — no accepted attribute change is lost (write-through completeness)."""
from collections import defaultdict

import numpy as np

from .. import env
from ..apisnap import snap_entity, snap_type
from ..core import CaseResult, Check
from ..engines import values as V


def parts_segments(labels):
    """Segments a part labelling stands for: consecutive vertices of the same part (as sorted pairs)."""
    labels = [int(v) for v in np.asarray(labels).ravel().tolist()]
    pairs = []
    for part in sorted(set(labels)):
        ind = [i for i, v in enumerate(labels) if v == part]
        pairs += [[a, b] for a, b in zip(ind[:-1], ind[1:])]
    return [float(x) for pair in sorted(pairs) for x in pair]


def cells_as_pairs(entity):
    cells = getattr(entity, "cells", None)
    if cells is None:
        return []
    return [float(x) for pair in sorted(sorted(int(v) for v in row) for row in np.asarray(cells).reshape(-1, 2).tolist())
            for x in pair]


COUPLED = {"dip": ("vertical",), "vertical": ("dip",), "parts": ("cells",), "cells": ("parts",),
           "surveys": ("end_of_hole",),  # the survey setter moves the end of hole to the last survey depth

           "coordinate_reference_system": ("metadata",), "metadata": ("coordinate_reference_system",)}


def _pairs():
    return V.discover_pairs()


class C03(Check):
    pid = "C03"
    level = "exploration"
    budgets = {"quick": (220, 16), "thorough": (3000, 16)}
    exhaustive_note = ("the (class, assignable attribute) pair dimension is enumerated completely on every run "
                       "(reflective discovery over attribute maps, KEY_MAP array fields, type attributes and the "
                       "workspace header); values per pair are sampled")
    rule = (
        "Pairs (owner kind, class, attribute with a property setter) are discovered reflectively and ALL enumerated "
        "(1 value each in quick, 8 in thorough); in addition Hypothesis draws cases of 1-4 assignments to distinct "
        "attributes of one stored entity in a drawn order, optionally on an entity re-loaded from the file first. "
        "Oracle per assignment: (1) getter == assigned value right after the call, (3) getter on the entity "
        "re-loaded from the closed file == assigned value, (4) every other attribute of the entity reads the same "
        "live and after re-open. A setter that raises means 'not accepted' (counted, not a violation). "
        "Non-trivial = at least one accepted assignment whose value differs from the previous value, on an entity "
        "that was on file before. Distinct = (class, attribute set, value hashes) via program hash."
    )
    assumptions = ["attributes without a value domain in the table are reported as no_domain (counted)",
                   "excluded pseudo-attributes are listed in vp/engines/values.py::EXCLUDED with reasons"]

    def enumerated(self, tier):
        reps = 1 if tier == "quick" else 8
        out = []
        for owner, cname, attr in _pairs():
            for r in range(reps):
                out.append({"owner": owner, "cls": cname, "geom": {"n": 3 + r % 3, "g": [1 + r, 2, -3, 4, r, 5]},
                            "ops": [{"attr": attr, "seed": [1 + r, 2 * r + 1, 3, r]}], "reload_first": bool(r % 2)})
            # "blind": nothing is read back on the live entity after the assignment (a getter could re-derive and
            # re-write what the setter failed to store); "inplace": the array the getter returned is edited in place
            # and the very same object is assigned back (the usual read-modify-write idiom)
            out.append({"owner": owner, "cls": cname, "geom": {"n": 4, "g": [2, 2, -3, 4, 1, 5]},
                        "ops": [{"attr": attr, "seed": [3, 5, 2, 1]}], "reload_first": False, "blind": True})
            out.append({"owner": owner, "cls": cname, "geom": {"n": 4, "g": [2, 2, -3, 4, 1, 5]},
                        "ops": [{"attr": attr, "seed": [2, 7, 1, 4], "inplace": True}], "reload_first": True})
            # two assignments to the SAME attribute: a typical value, then the falsy/default value (a reset);
            # and a whole-number int followed by a fractional float (stored type must follow the value)
            out.append({"owner": owner, "cls": cname, "geom": {"n": 3, "g": [1, 2, -3, 4, 0, 5]},
                        "ops": [{"attr": attr, "seed": [5, 3, 1]}, {"attr": attr, "seed": [0]}], "reload_first": False})
            out.append({"owner": owner, "cls": cname, "geom": {"n": 3, "g": [1, 2, -3, 4, 0, 5]},
                        "ops": [{"attr": attr, "seed": [100]}, {"attr": attr, "seed": [1, 1, 2]}], "reload_first": True})
            if owner == "datatype":
                out.append({"owner": owner, "cls": cname, "geom": {"n": 3, "g": [1, 2, -3, 4, 0, 5]}, "fresh_type": True,
                            "ops": [{"attr": attr, "seed": [3, 1, 4, 1]}], "reload_first": False})
            if attr == "dip" and (owner, cname, "vertical") in set(_pairs()):
                # coupled attributes assigned one after the other: the second assignment must win
                for first, second in (("vertical", "dip"), ("dip", "vertical")):
                    out.append({"owner": owner, "cls": cname, "geom": {"n": 3, "g": [1, 2, -3, 4, 0, 5]},
                                "ops": [{"attr": first, "seed": [4, 1]}, {"attr": second, "seed": [4, 1]}],
                                "reload_first": False})
        return out

    def strategy(self, tier):
        by_class = defaultdict(list)
        for owner, cname, attr in _pairs():
            by_class[(owner, cname)].append(attr)
        return V.assignment_program(dict(by_class))

    def finalize(self, tier, merged):
        pairs = _pairs()
        covered = {k[len("pair:"):] for k in merged["labels"] if k.startswith("pair:")}
        nodomain = sorted(k[len("no_domain:"):] for k in merged["labels"] if k.startswith("no_domain:"))
        rejected = sorted(k[len("rejected:"):] for k in merged["labels"] if k.startswith("rejected:"))
        return {"pairs_total": len(pairs), "pairs_assigned": len(covered), "pairs_without_domain": nodomain,
                "pairs_rejected_by_setter": rejected}

    def run_case(self, program):
        from geoh5py.workspace import Workspace

        res = CaseResult()
        owner, cname = program["owner"], program["cls"]
        path = env.new_path("c03")
        ops = list(program["ops"])
        extra = {}
        ws_kwargs = {}
        if ops and ops[0]["seed"] == [100]:
            # "int" form: the attribute is FIRST written as a whole-number int, at creation where the constructor takes it
            first = ops[0]["attr"]
            if owner == "workspace" and first == "version":
                ws_kwargs["version"] = 2
                ops = ops[1:]
            elif owner in ("object", "cobject") and first in V.INT_AT_CREATION and V.has_setter(V.F.get_class(cname), first):
                extra[first] = V.INT_AT_CREATION[first]
                ops = ops[1:]
        ws = Workspace.create(path, **ws_kwargs)
        try:
            try:
                ent, target = V.build_owner(ws, owner, cname, program["geom"], extra)
            except Exception as exc:
                res.label(f"build_failed:{cname}:{type(exc).__name__}")
                return res
            uid = ent.uid if ent is not None else None
            if program.get("fresh_type") and owner == "datatype":
                # the data set is given a brand-new data type first; the assignments then go to that type
                from geoh5py.data import DataType

                ent.entity_type = DataType(ws, primitive_type=ent.entity_type.primitive_type, name="fresh type")
                target = ent.entity_type
                res.label("type-attached-after-creation")

            def locate(wsp):
                if owner == "workspace":
                    return None, wsp
                e = wsp.get_entity(uid)[0]
                if e is None and owner == "cdata":
                    # concatenated data are loaded with their hole
                    for grp in [g for g in wsp.groups if "DrillholeGroup" in type(g).__name__]:
                        for hole in grp.children:
                            for label in (hole.get_data_list() if hasattr(hole, "get_data_list") else []):
                                e = next((c for c in hole.get_data(label) if c.uid == uid), e)
                if e is None:
                    return None, None
                return e, (e.entity_type if owner.endswith("type") else e)

            if program.get("reload_first") and owner != "workspace":
                ws.close()
                del ent, target
                ws = Workspace(path)
                ent, target = locate(ws)
                if target is None:
                    res.label("target_lost_on_reload")
                    return res
            done = []
            blind = bool(program.get("blind"))
            if blind:
                res.label("blind-assignment")
            if extra or ws_kwargs:
                res.label("created-with-int-attribute")
            for op in ops:
                attr = op["attr"]
                tag = f"{owner}:{cname}.{attr}"
                try:
                    value, exp = V.make_value(owner, cname, attr, op["seed"], target)
                except Exception as exc:
                    res.label(f"no_domain:{tag}")
                    continue
                if value is None:
                    res.label(f"no_domain:{tag}")
                    continue
                if value is V.NONE:
                    value, exp = None, None
                try:
                    before = V.flat(getattr(target, attr))
                except Exception:
                    before = None
                if op.get("inplace") and isinstance(value, np.ndarray) and not value.dtype.names:
                    try:
                        cur = getattr(target, attr)
                    except Exception:
                        cur = None
                    if (isinstance(cur, np.ndarray) and cur.shape == value.shape and not cur.dtype.names
                            and cur.flags.writeable and np.can_cast(value.dtype, cur.dtype, "safe")):
                        cur[...] = value
                        value = cur
                        res.label("assigned-in-place")
                given = value.copy() if isinstance(value, np.ndarray) else value
                try:
                    setattr(target, attr, value)
                except Exception as exc:
                    res.label(f"rejected:{tag}:{type(exc).__name__}")
                    continue
                res.label(f"pair:{tag}")
                want = exp if isinstance(exp, list) else V.flat(given)
                if exp == "valuemap":
                    full = dict(given)
                    full.setdefault(0, "Unknown")
                    want = V.flat({int(k): v for k, v in full.items()})
                if exp == "colormap":
                    want = None
                if blind:
                    got_val = None
                    if exp == "colormap":
                        want = [float(x) for x in np.asarray(given).ravel().tolist()]
                        getter = lambda t, a=attr: [float(x) for x in np.asarray(getattr(t, a).values).T.ravel().tolist()]  # noqa: E731
                    elif attr == "parts":
                        want, getter = parts_segments(given), cells_as_pairs
                    elif exp == "skip-getter":
                        want = getter = None
                    else:
                        getter = lambda t, a=attr: V.flat(getattr(t, a))  # noqa: E731
                    done = [d for d in done if d[0] != attr and d[0] not in COUPLED.get(attr, ())]
                    done.append((attr, want, getter, before != want))
                    continue
                try:
                    got_val = getattr(target, attr)
                except Exception as exc:
                    res.fail(f"C03/getter-raises/{owner}/{cname}/{attr}", f"{type(exc).__name__}: {exc}")
                    return res
                if exp == "colormap":
                    got = [float(x) for x in np.asarray(got_val.values).T.ravel().tolist()]
                    want = [float(x) for x in np.asarray(given).ravel().tolist()]
                    getter = lambda t, a=attr: [float(x) for x in np.asarray(getattr(t, a).values).T.ravel().tolist()]  # noqa: E731
                elif attr == "parts":
                    # the labels are a view of the segments: what must persist are the segments they stand for
                    want, getter = parts_segments(given), cells_as_pairs
                    got = getter(target)
                elif exp == "skip-getter":
                    got = want = None
                    getter = None
                else:
                    got = V.flat(got_val)
                    getter = lambda t, a=attr: V.flat(getattr(t, a))  # noqa: E731
                if getter is not None and got != want:
                    res.fail(f"C03/getter-differs-after-assign/{owner}/{cname}/{attr}",
                             f"assigned {want!r:.300}, getter returns {got!r:.300}")
                    return res
                # a later assignment to the same attribute supersedes; so does one to the attribute it is coupled with
                # (Grid2D: dip == 90 <=> vertical)
                done = [d for d in done if d[0] != attr and d[0] not in COUPLED.get(attr, ())]
                done.append((attr, want, getter, before != want))
            if not done:
                return res
            live_snap = snap_entity(ent) if ent is not None and not blind else None
            live_type = snap_type(ent.entity_type) if ent is not None and not blind else None
            ws.close()
            del ent, target
            ws = Workspace(path, mode="r")
            ent2, target2 = locate(ws)
            if target2 is None:
                res.fail(f"C03/entity-lost/{owner}/{cname}/" + "+".join(sorted(d[0] for d in done)),
                         f"entity not found after re-open (assigned: {[d[0] for d in done]})")
                return res
            for attr, want, getter, changed in done:
                if getter is None:
                    continue
                try:
                    got = getter(target2)
                except Exception as exc:
                    res.fail(f"C03/getter-raises-after-reopen/{owner}/{cname}/{attr}", f"{type(exc).__name__}: {exc}")
                    return res
                if got != want:
                    res.fail(f"C03/lost-on-reopen/{owner}/{cname}/{attr}",
                             f"assigned {want!r:.300}; a fresh reader sees {got!r:.300}")
                    return res
                if changed:
                    res.nontrivial = True
            if ent2 is not None and not blind:
                fresh_snap = snap_entity(ent2)
                fresh_type = snap_type(ent2.entity_type)
                for key in sorted(set(live_snap) | set(fresh_snap)):
                    if key == "type" or (owner == "cobject" and key in ("children", "n_child_entries")):
                        continue  # (children of a concatenated hole are loaded on demand: not an attribute)
                    if live_snap.get(key) != fresh_snap.get(key):
                        res.fail(f"C03/memory-differs-from-file/{owner}/{cname}/{key}",
                                 f"after assigning {[d[0] for d in done]}: live {key}={live_snap.get(key)!r:.200} file {fresh_snap.get(key)!r:.200}")
                        return res
                for key in sorted(set(live_type) | set(fresh_type)):
                    if live_type.get(key) != fresh_type.get(key):
                        res.fail(f"C03/memory-differs-from-file/{owner}/{cname}/type.{key}",
                                 f"after assigning {[d[0] for d in done]}: live type.{key}={live_type.get(key)!r:.200} file {fresh_type.get(key)!r:.200}")
                        return res
            res.info = {"assigned": [d[0] for d in done]}
            return res
        finally:
            env.close_quietly(ws)

    def shrink_candidates(self, program):
        if program.get("reload_first"):
            yield {**program, "reload_first": False}
        if program.get("blind"):
            yield {**program, "blind": False}
        for i, op in enumerate(program["ops"]):
            if len(op["seed"]) > 1:
                ops = list(program["ops"])
                ops[i] = {**op, "seed": op["seed"][:1]}
                yield {**program, "ops": ops}


CHECK = C03()
