"""C12 — a copy equals its source and never disturbs it."""
import copy as _copy
import itertools
import uuid

import numpy as np
from hypothesis import strategies as st

from .. import env, factory as F
from ..apisnap import canon_value, snap_entity
from ..core import CaseResult, Check
from ..rawsnap import node_digests, rawsnap

DATA_KINDS = ["float", "int", "bool", "ref", "text"]
TARGETS = ["same", "group", "ws2"]
ARRAY_ATTRS = ["vertices", "cells", "values", "octree_cells", "layers", "prisms", "surveys", "u_cell_delimiters",
               "v_cell_delimiters", "z_cell_delimiters", "origin", "collar"]


def all_subjects():
    subs = [("object", c) for c in F.OBJECT_CLASSES] + [("group", c) for c in F.GROUP_CLASSES]
    subs += [("data", k) for k in DATA_KINDS] + [("dhgroup", "DrillholeGroup"), ("root", "RootGroup")]
    return subs


def _replace(value, table):
    if isinstance(value, str):
        return table.get(value, value)
    if isinstance(value, dict):
        return {k: _replace(v, table) for k, v in value.items()}
    if isinstance(value, list):
        return [_replace(v, table) for v in value]
    return value


def subtree(entity, cross=False):
    """uid-free recursive snapshot: node attributes, children sorted by (name, class), property groups by child name;
    references of an entity to itself (survey metadata) are normalised to SELF."""
    node = snap_entity(entity)
    node.pop("parent", None)
    node.pop("children", None)
    node.pop("n_child_entries", None)
    kids_ent = [c for c in getattr(entity, "children", []) if hasattr(c, "entity_type")]
    names = {str(c.uid): f"{c.name}|{type(c).__name__}" for c in kids_ent}
    pgs = node.pop("pgs", None)
    if pgs is not None:
        node["pgs"] = sorted(
            [pg["name"], pg["association"], pg["type"], [names.get(p, "?" + p) for p in pg["props"]]] for pg in pgs.values())
    node = _replace(node, {"uid:" + str(entity.uid): "uid:SELF"})
    kids = sorted((subtree(c, cross) for c in kids_ent), key=lambda k: (str(k["node"].get("name")), k["node"]["cls"]))
    return {"node": node, "kids": kids}


def program_mode_r(p):
    return p.get("source_mode") == "r" and p["target"] == "ws2"


def first_diff(a, b, path=""):
    if isinstance(a, dict) and isinstance(b, dict):
        for key in sorted(set(a) | set(b), key=str):
            if a.get(key) != b.get(key):
                return first_diff(a.get(key), b.get(key), f"{path}.{key}")
        return None
    if isinstance(a, list) and isinstance(b, list) and len(a) == len(b) and path.endswith("kids"):
        for i, (x, y) in enumerate(zip(a, b)):
            if x != y:
                return first_diff(x, y, f"{path}[{i}]")
    if a != b:
        return path, a, b
    return None


class C12(Check):
    pid = "C12"
    level = "exploration"
    budgets = {"quick": (50, 16), "thorough": (1200, 16)}
    exhaustive_note = ("the grid (every object / group class, every data kind, drillhole group) x target {same parent, "
                       "another group/object, second workspace} x copy_children x clear_cache is enumerated completely "
                       "with one content each; contents and edits are sampled by Hypothesis on top")
    rule = (
        "Subject = an entity of every object class (incl. survey classes), group class (with a nested subtree), data "
        "kind, or a drillhole group with two holes; contents generated (geometry, data of several kinds, metadata, a "
        "property group). It is copied to the same parent, another group (another object for data) or the root of a "
        "second workspace, with/without children and clear_cache, then 0-3 edits are applied to the copy (values, "
        "vertices, metadata, rename, property-group edit) and both files are re-opened. Oracle: (1) copy has the same "
        "class and a uid-free recursive snapshot (attributes, geometry, values, type attributes, ordered children, "
        "property groups by child position) equal to the source's; property groups of the copy reference the copied "
        "children; (2) the source subtree snapshot and the raw per-node digests of all source nodes are unchanged "
        "(only the receiving parent's child list may change); (3) no array of the copy shares memory with the source, "
        "metadata/options dictionaries are distinct objects; (4) after each edit of the copy the source is unchanged, "
        "live and after re-open; (5) after re-opening both files the copy still equals the source as it was when "
        "copied (apart from the edits). Non-trivial = subject with >=1 child and a property group or metadata entry, "
        "copied to a different parent, with >=1 edit. Distinct = program hash."
    )

    def enumerated(self, tier):
        out = []
        for (kind, cls), target, children, clear in itertools.product(all_subjects(), TARGETS, [True, False], [False, True]):
            if kind == "data" and not children:
                continue
            out.append({"kind": kind, "cls": cls, "target": target, "children": children, "clear": clear,
                        "geom": {"n": 4, "g": [1, -2, 3, 0, 5, -4, 2, 7, 1, 3]}, "vals": [3, None, -2, 8, 1, 4],
                        "edits": (["dh_remove", "rename", "dh_remove_hole"] if kind == "dhgroup" else
                                  ["values_rw", "metadata_nested", "rename"] if target != "same"
                                  else ["metadata_nested", "values_rw"])})
            if kind == "group" and children:
                out.append({**out[-1], "override_name": True})
            if kind == "dhgroup" and children:
                # the source is first read AFTER the copy was edited (values cached by an earlier read would hide a
                # stale shared index)
                out.append({**out[-1], "defer_source_read": True})
            if target == "ws2" and children and not clear:
                # copying OUT of a workspace opened read-only (the source must not be written to)
                out.append({**out[-1], "source_mode": "r"})
        return out

    def strategy(self, tier):
        return st.fixed_dictionaries({
            "kind_cls": st.sampled_from(all_subjects()), "target": st.sampled_from(TARGETS),
            "children": st.booleans(), "clear": st.booleans(),
            "geom": st.fixed_dictionaries({"n": st.integers(2, 6), "g": st.lists(st.integers(-9, 9), min_size=3, max_size=10)}),
            "vals": st.lists(st.one_of(st.integers(-20, 20), st.none()), min_size=0, max_size=10),
            "edits": st.lists(st.sampled_from(["values", "values_rw", "vertices", "metadata", "metadata_nested", "rename", "pg",
                                               "dh_remove", "dh_remove_hole"]), max_size=3),
            "source_mode": st.sampled_from(["r+", "r+", "r"]), "defer_source_read": st.booleans(),
            "override_name": st.booleans(),
        }).map(lambda d: {**{k: v for k, v in d.items() if k != "kind_cls"}, "kind": d["kind_cls"][0], "cls": d["kind_cls"][1]})

    # ------------------------------------------------------------------ builders
    def build_object(self, ws, parent, cls_name, p, name="subject"):
        cls = F.get_class(cls_name)
        obj = cls.create(ws, parent=parent, name=name, **F.object_kwargs(cls_name, p["geom"]))
        made = []
        if cls_name == "Drillhole":
            return obj
        for kind, assoc in (("float", "VERTEX"), ("int", "VERTEX"), ("float", "CELL"), ("text", "OBJECT"), ("ref", "CELL")):
            count = F.n_elements(obj, assoc)
            if not count:
                continue
            if kind == "text" and count == 1 and assoc != "OBJECT":
                continue
            arr, _ = F.make_values(kind, (list(p["vals"]) + [1, None, 2, 5, 7, 3] * 3)[:count], count)
            spec = F.data_spec(kind, assoc, arr if not (kind == "text" and assoc == "OBJECT") else "note")
            try:
                data = obj.add_data({f"{kind}_{assoc}": spec})
                made.append(data)
            except Exception:
                continue
        vertex = [d for d in made if d.association.name == "VERTEX"]
        cellish = [d for d in made if d.association.name == "CELL"]
        for group in (vertex, cellish):
            if group:
                try:
                    obj.add_data_to_group(group, f"pg_{group[0].association.name}")
                except Exception:
                    pass
        if vertex or cellish:
            try:
                obj.find_or_create_property_group(name="to be filled")  # an empty group listed after the filled ones
            except Exception:
                pass
        if "survey" not in cls.__module__ and "surveys" not in cls.__module__:
            try:
                obj.metadata = {"note": "m", "n": 3, "Survey": {"line": 1, "deep": {"x": [1, 2]}}}
            except Exception:
                pass
        return obj

    def build_subject(self, ws, p):
        from geoh5py.groups import ContainerGroup, DrillholeGroup
        from geoh5py.objects import Drillhole, Points

        home = ContainerGroup.create(ws, name="home")
        kind, cls = p["kind"], p["cls"]
        if kind == "object":
            return home, self.build_object(ws, home, cls, p)
        if kind == "group":
            grp = F.get_class(cls).create(ws, parent=home, name="subject")
            try:
                grp.metadata = {"note": "g", "options": {"param": {"value": 10}}}
            except Exception:
                pass
            sub = ContainerGroup.create(ws, parent=grp, name="inner")
            self.build_object(ws, grp, "Points", p, name="pts")
            self.build_object(ws, sub, "Curve", p, name="crv")
            return home, grp
        if kind == "root":
            # the root group itself (the whole project) is a group entity too
            self.build_object(ws, home, "Points", p, name="pts")
            return ws.root, ws.root
        if kind == "data":
            host = Points.create(ws, parent=home, name="host", vertices=F.lattice(p["geom"]["g"], max(2, p["geom"]["n"])))
            count = host.n_vertices
            arr, _ = F.make_values(cls, (list(p["vals"]) + [1, None, 2, 5, 7, 3] * 3)[:count], count)
            data = host.add_data({"subject": F.data_spec(cls, "VERTEX", arr)})
            return host, data
        grp = DrillholeGroup.create(ws, parent=home, name="subject")
        for k in range(2):
            hole = Drillhole.create(ws, parent=grp, name=f"h{k}", collar=[float(k), 0.0, 0.0],
                                    surveys=np.asarray([[0.0, 0.0, -90.0], [10.0, 45.0, -80.0]]))
            hole.add_data({"a/x": {"depth": np.asarray([0.0, 1.0, 2.0]), "values": np.asarray([1.0 + k, 2.0, np.nan])}})
            hole.add_data({"b": {"from-to": np.asarray([[0.0, 1.0], [1.0, 2.5]]), "values": np.asarray([5 + k, 6], dtype="int32")}})
        return home, grp

    def dh_snapshot(self, group):
        out = []
        for hole in [c for c in group.children if hasattr(c, "surveys")]:
            rec = {"name": hole.name, "collar": canon_value(hole.collar), "surveys": canon_value(hole.surveys), "data": {}}
            for name in sorted(hole.get_data_list()):
                data = hole.get_data(name)
                rec["data"][name] = canon_value(data[0].values) if data else "MISSING"
            rec["pgs"] = sorted(pg.name for pg in (hole.property_groups or []))
            out.append(rec)
        return out

    def snap(self, entity, p, cross=False):
        if p["kind"] == "dhgroup":
            base = snap_entity(entity)
            for key in ("parent", "children", "n_child_entries", "pgs"):
                base.pop(key, None)
            return {"node": base, "holes": self.dh_snapshot(entity)}
        return subtree(entity, cross)

    # ------------------------------------------------------------------ case
    def run_case(self, p):
        from geoh5py.groups import ContainerGroup
        from geoh5py.objects import Points
        from geoh5py.workspace import Workspace

        res = CaseResult()
        kind, cls, target = p["kind"], p["cls"], p["target"]
        tag = f"{kind}/{cls}"
        path1, path2 = env.new_path("c12a"), env.new_path("c12b")
        ws1 = Workspace.create(path1)
        ws2 = Workspace.create(path2) if target == "ws2" else None
        try:
            try:
                home, subject = self.build_subject(ws1, p)
            except Exception as exc:
                res.label(f"build_failed:{cls}:{type(exc).__name__}")
                return res
            cross = target == "ws2"
            if kind == "root" and not cross:
                res.label("root-copy-into-itself-skipped")
                return res
            if program_mode_r(p):
                # re-open the source read-only and fetch the subject again
                uid0, home_uid = subject.uid, home.uid
                ws1.close()
                del subject, home
                ws1 = Workspace(path1, mode="r")
                subject, home = ws1.get_entity(uid0)[0], ws1.get_entity(home_uid)[0]
                res.label("source:read-only")
            # receiving parent
            if kind == "data":
                if target == "same":
                    dest = home
                else:
                    dws = ws2 if cross else ws1
                    dest = Points.create(dws, name="dest", vertices=F.lattice(p["geom"]["g"], home.n_vertices, offset=2))
            else:
                if target == "same":
                    dest = home
                elif cross:
                    dest = ws2.root
                else:
                    dest = ContainerGroup.create(ws1, name="dest")
            src_uid, dest_uid = subject.uid, dest.uid
            if kind == "dhgroup":
                # expected content from what was written: the source is NOT read before the copy and the edits,
                # so a stale in-memory index cannot hide behind cached values
                node = snap_entity(subject)
                for key in ("parent", "children", "n_child_entries", "pgs"):
                    node.pop(key, None)
                before = {"node": node, "holes": [
                    {"name": f"h{k}", "collar": canon_value(np.asarray((float(k), 0.0, 0.0), dtype=[("x", float), ("y", float), ("z", float)])),
                     "surveys": canon_value(np.asarray([[0.0, 0.0, -90.0], [10.0, 45.0, -80.0]])),
                     "data": {"DEPTH": canon_value(np.asarray([0.0, 1.0, 2.0])), "FROM": canon_value(np.asarray([0.0, 1.0])),
                              "TO": canon_value(np.asarray([1.0, 2.5])), "a/x": canon_value(np.asarray([1.0 + k, 2.0, np.nan])),
                              "b": canon_value(np.asarray([5 + k, 6], dtype="int32"))},
                     "pgs": ["Interval_0", "depth_0"]} for k in range(2)]}
            else:
                before = self.snap(subject, p)
            src_uids = {str(subject.uid)} | ({str(c.uid) for c in self.walk(subject)} if kind != "dhgroup" else set())
            raw_before = {k: v for k, v in node_digests(rawsnap(ws1.geoh5)).items() if k[1].strip("{}") in src_uids}
            kwargs = {"parent": dest, "clear_cache": p["clear"]}
            if kind != "data":
                kwargs["copy_children"] = p["children"]
            rename = bool(p.get("override_name")) and kind in ("group", "object")
            if rename:
                kwargs["name"] = "Backup"  # an attribute override meant for the copied entity only
                res.label("copy-with-name-override")
            try:
                new = subject.copy(**kwargs)
            except Exception as exc:
                res.fail(f"C12/copy-raises/{tag}/{target}/{type(exc).__name__}", f"copy({kwargs.keys()}) raised {type(exc).__name__}: {exc}"[:400])
                return res
            if new is None:
                res.fail(f"C12/copy-returned-none/{tag}/{target}/", "copy returned None")
                return res
            cond = f"{target}/children={p['children']}/clear={p['clear']}"
            if type(new).__name__ != type(subject).__name__:
                res.fail(f"C12/copy-class-differs/{tag}/{target}/", f"{type(subject).__name__} copied as {type(new).__name__}")
                return res
            if new.parent is None or new.parent.uid != dest.uid:
                res.fail(f"C12/copy-parent/{tag}/{target}/", f"copy is under {getattr(new.parent, 'uid', None)}, asked {dest.uid}")
                return res
            # (1) equality
            want = _copy.deepcopy(before)
            if rename and isinstance(want.get("node"), dict) and "name" in want["node"]:
                want["node"]["name"] = "Backup"
            if not p["children"] and kind != "data":
                if kind == "dhgroup":
                    want["holes"] = []
                else:
                    want["kids"] = []
                    if "pgs" in want["node"]:
                        want["node"]["pgs"] = []
            got = self.snap(new, p, cross)
            if rename:
                # (keyword overrides are applied to the entity AND to its type where the type has an attribute of that
                # name - a type shared with children of the same class: type names are not compared for such copies)
                def strip(tree_):
                    if isinstance(tree_, dict):
                        if isinstance(tree_.get("type"), dict):
                            tree_["type"].pop("name", None)
                        for value in tree_.values():
                            strip(value)
                    elif isinstance(tree_, list):
                        for value in tree_:
                            strip(value)

                strip(want)
                strip(got)
            if cross:
                self.drop_type_uids(want)
                self.drop_type_uids(got)
            diff = first_diff(want, got)
            if diff:
                res.fail(f"C12/copy-differs/{tag}/{diff[0].split('[')[0].lstrip('.')}@{'cross' if cross else 'same-ws'}",
                         f"{cond}: {diff[0]}: source={diff[1]!r:.300} copy={diff[2]!r:.300}")
                return res
            # (2) source undisturbed
            defer = bool(p.get("defer_source_read")) and kind == "dhgroup"
            if defer:
                res.label("source-first-read-after-edits")
            after = before if defer else self.snap(subject, p)
            diff = first_diff(before, after)
            if diff:
                res.fail(f"C12/source-disturbed-live/{tag}/{diff[0].split('[')[0].lstrip('.')}",
                         f"{cond}: {diff[0]}: before={diff[1]!r:.300} after={diff[2]!r:.300}")
                return res
            raw_after = {k: v for k, v in node_digests(rawsnap(ws1.geoh5)).items() if k in raw_before}
            for key in raw_before:
                if raw_before[key] != raw_after.get(key):
                    parts = sorted(q for q in raw_before[key] if raw_before[key][q] != (raw_after.get(key) or {}).get(q))
                    if key[1].strip("{}") == str(dest_uid) and set(parts) <= {"children"}:
                        continue
                    res.fail(f"C12/source-disturbed-file/{tag}/{','.join(parts)}", f"{cond}: stored node {key} changed parts {parts}")
                    return res
            # (3) aliasing
            alias = self.aliasing(subject, new)
            if alias:
                # shared memory is only a potential; the observable consequence is tested by the edits below
                res.label("shares-memory:" + alias)
            # (4) edits of the copy
            n_edits = 0
            self.source_entity = subject
            for edit in p["edits"]:
                done = self.apply_edit(edit, new, p)
                if done is None:
                    continue
                if isinstance(done, str):
                    res.label(f"edit_failed:{edit}:{done}")
                    continue
                n_edits += 1
                res.label("edit:" + edit)
                diff = first_diff(before, self.snap(subject, p))
                if diff:
                    res.fail(f"C12/edit-of-copy-shows-in-source/{tag}/{edit}:{diff[0].split('[')[0].lstrip('.')}",
                             f"{cond}: after {edit} on the copy, source {diff[0]}: {diff[1]!r:.200} -> {diff[2]!r:.200}")
                    return res
            copy_now = self.snap(new, p, cross)
            new_uid = new.uid
            del subject, new, dest, home
            # (5) re-open both files
            ws1.close()
            if ws2 is not None:
                ws2.close()
            ws1 = Workspace(path1, mode="r")
            if ws2 is not None:
                ws2 = Workspace(path2, mode="r")
            src2 = ws1.get_entity(src_uid)[0]
            new2 = (ws2 if cross else ws1).get_entity(new_uid)[0]
            if src2 is None or new2 is None:
                res.fail(f"C12/lost-after-reopen/{tag}/{'source' if src2 is None else 'copy'}", f"{cond}")
                return res
            diff = first_diff(before, self.snap(src2, p))
            if diff:
                res.fail(f"C12/source-differs-after-reopen/{tag}/{diff[0].split('[')[0].lstrip('.')}",
                         f"{cond} edits={p['edits']}: {diff[0]}: {diff[1]!r:.200} -> {diff[2]!r:.200}")
                return res
            got2 = self.snap(new2, p, cross)
            if cross:
                self.drop_type_uids(copy_now)
                self.drop_type_uids(got2)
            diff = first_diff(copy_now, got2)
            if diff:
                res.fail(f"C12/copy-differs-after-reopen/{tag}/{diff[0].split('[')[0].lstrip('.')}",
                         f"{cond} edits={p['edits']}: {diff[0]}: live={diff[1]!r:.200} reopened={diff[2]!r:.200}")
                return res
            has_kids = bool(before.get("kids") or before.get("holes"))
            rich = bool(before["node"].get("pgs")) or bool(before["node"].get("metadata"))
            res.nontrivial = has_kids and rich and target != "same" and n_edits > 0
            res.label(f"kind:{kind}", f"target:{target}")
            return res
        finally:
            env.close_quietly(ws1, ws2)

    def walk(self, entity):
        out = []
        for child in getattr(entity, "children", []):
            if hasattr(child, "entity_type"):
                out.append(child)
                out.extend(self.walk(child))
        return out

    def drop_type_uids(self, tree):
        if isinstance(tree, dict):
            if isinstance(tree.get("type"), dict):
                tree["type"].pop("uid", None)
            for value in tree.values():
                self.drop_type_uids(value)
        elif isinstance(tree, list):
            for item in tree:
                self.drop_type_uids(item)

    def aliasing(self, src, new):
        pairs = [(src, new)]
        s_kids = [c for c in getattr(src, "children", []) if hasattr(c, "entity_type")]
        n_kids = [c for c in getattr(new, "children", []) if hasattr(c, "entity_type")]
        if len(s_kids) == len(n_kids):
            pairs += list(zip(s_kids, n_kids))
        for a, b in pairs:
            for attr in ARRAY_ATTRS:
                va, vb = getattr(a, "_" + attr, None), getattr(b, "_" + attr, None)
                if isinstance(va, np.ndarray) and isinstance(vb, np.ndarray) and va.size and np.shares_memory(va, vb):
                    return f"{type(a).__name__}.{attr}"
            for attr in ("_metadata", "_options"):
                va, vb = getattr(a, attr, None), getattr(b, attr, None)
                if isinstance(va, dict) and va is vb:
                    return f"{type(a).__name__}.{attr.strip('_')}"
        return None

    def apply_edit(self, edit, new, p):
        try:
            if edit == "rename":
                new.name = "edited"
                return True
            if edit == "metadata":
                if p["kind"] in ("data", "dhgroup") or "survey" in type(new).__module__:
                    return None
                new.metadata = {"edited": 1}
                return True
            if edit == "metadata_nested":
                # read the dictionary, change a value below the top level, assign it back
                md = getattr(new, "metadata", None)
                if p["kind"] in ("data", "dhgroup") or not isinstance(md, dict):
                    return None
                inner = next((v for v in md.values() if isinstance(v, dict)), None)
                if inner is None:
                    return None
                key = sorted(inner, key=str)[0]
                if isinstance(inner[key], dict):
                    inner = inner[key]
                    key = sorted(inner, key=str)[0]
                inner[key] = 99 if not isinstance(inner[key], list) else list(inner[key]) + [99]
                new.metadata = md
                return True
            if edit == "vertices":
                verts = getattr(new, "vertices", None)
                if p["kind"] != "object" or verts is None or "Drillhole" in type(new).__name__ or "GeoImage" in type(new).__name__:
                    return None
                new.vertices = np.asarray(verts) + 1.5
                return True
            if edit == "values":
                target = new if p["kind"] == "data" else next(
                    (c for c in getattr(new, "children", []) if type(c).__name__ in ("FloatData", "IntegerData")), None)
                if target is None or target.values is None:
                    return None
                target.values = np.asarray(target.values) + 1
                return True
            if edit == "values_rw":
                target = new if p["kind"] == "data" else next(
                    (c for c in getattr(new, "children", []) if type(c).__name__ in ("FloatData", "IntegerData", "TextData")
                     and isinstance(c.values, np.ndarray) and len(c.values) > 1), None)
                if target is None or not isinstance(target.values, np.ndarray) or len(target.values) < 2:
                    return None
                arr = target.values  # read, modify in place, assign back: the usual user pattern
                arr[0] = "zz" if arr.dtype.kind == "U" else (arr[0] + 3 if arr[0] == arr[0] else 1.0)
                target.values = arr
                return True
            if edit == "dh_remove_hole":
                # a hole is removed from the COPY, then a hole of the SOURCE is saved again (a no-op by itself): the
                # source group must still list all its holes, live and after re-open
                if p["kind"] != "dhgroup" or not p["children"] or p.get("source_mode") == "r":
                    return None
                holes = [c for c in new.children if hasattr(c, "surveys")]
                src_holes = [c for c in self.source_entity.children if hasattr(c, "surveys")] if self.source_entity else []
                if len(holes) < 2 or not src_holes:
                    return None
                new.workspace.remove_entity(holes[0])
                self.source_entity.workspace.save_entity(src_holes[-1])
                return True
            if edit == "dh_remove":
                if p["kind"] != "dhgroup" or not p["children"]:
                    return None
                holes = [c for c in new.children if hasattr(c, "surveys")]
                if not holes:
                    return None
                data = holes[0].get_data("a/x")
                if not data:
                    return None
                new.workspace.remove_entity(data[0])
                return True
            if edit == "pg":
                pgs = getattr(new, "property_groups", None)
                if not pgs or p["kind"] != "object":
                    return None
                pg = pgs[0]
                if pg.properties and len(pg.properties) > 1:
                    pg.remove_properties([pg.properties[0]])
                    return True
                return None
        except Exception as exc:
            return type(exc).__name__
        return None


CHECK = C12()
