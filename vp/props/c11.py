"""C11 — closing always leaves a complete file and a released handle."""
import gc
import uuid

import numpy as np
from hypothesis import strategies as st

from .. import env, factory as F
from ..apisnap import apisnap, canon_value, diff_nodes, entity_attrs
from ..core import CaseResult, Check
from ..engines import tree
from ..rawsnap import rawsnap
from ..validity import check_valid

CLOSERS = ["normal", "exception", "explicit", "fetch_active", "save_as", "exception_after_close",
           "helper_on_closed_exception", "helper_mode_switch_exception"]


class Boom(Exception):
    """Private exception used as the crash inside the with-block."""


@st.composite
def program_strategy(draw, max_ops=20):
    build = draw(tree.program_strategy({
        "max_ops": max_ops, "ws2": False,
        "weights": {**tree.DEFAULT_CFG["weights"], "gc": 1, "hold": 0, "release": 0, "observe": 0, "reopen": 3},
    }))
    build["allow_known"] = False
    build["observe"] = "reopen"
    n = len(build["ops"])
    crash = draw(st.integers(0, n))
    if n >= 3 and draw(st.integers(0, 9)) < 7:
        # constructive shape: ... re-open, >=1 more operation, crash strictly inside the program
        pos = draw(st.integers(1, n - 2))
        build["ops"] = build["ops"][:pos] + [{"op": "reopen"}] + build["ops"][pos:]
        n += 1
        crash = draw(st.integers(pos + 2, n - 1)) if pos + 2 <= n - 1 else n - 1
    return {"build": build, "crash": crash, "closer": draw(st.sampled_from(CLOSERS)),
            "observe_before_close": draw(st.booleans()),
            "setters": draw(st.lists(st.sampled_from(["name", "public", "visible", "values", "metadata"]), max_size=3))}


class C11(Check):
    pid = "C11"
    level = "exploration"
    budgets = {"quick": (70, 16), "thorough": (1500, 16)}
    ops_key = "none"
    rule = (
        "A generated tree program is executed up to a drawn crash point c in [0, n]; the operations after the last "
        "re-open run inside `with workspace:` and the block is left by a drawn closer: normal exit, a private "
        "exception raised between two operations, explicit close() inside the block, fetch_active_workspace forcing "
        "a mode change, save_as, or an exception after an explicit close. Oracle: (1) the private exception propagates "
        "as the same object; (2) no open HDF5 identifier belongs to the file(s) and workspace._geoh5 is falsy; (3) a "
        "second Workspace opens the file, the raw layout passes the C02 validity predicate and the tree equals the "
        "reference model of exactly the operations completed before c; (4) closed access, differential against that "
        "open twin: every getter of every previously obtained entity either raises Geoh5FileClosedError or returns a "
        "value equal to the twin's; setters must raise Geoh5FileClosedError (or the exception the twin raises too); "
        "(5) open() restores access: the same getters return the twin's values and the tree equals the model. "
        "Non-trivial = crash point strictly inside the program after >=1 mutation in the with-block and >=1 "
        "closed-access call on an entity whose arrays were never loaded in that session. Distinct = program hash."
    )
    assumptions = ["process kills / power loss are out of scope (stated in the property)",
                   "crash points are between two API operations"]

    def strategy(self, tier):
        main = program_strategy(20 if tier == "quick" else 35)
        memory = st.fixed_dictionaries({
            "family": st.just("memory"), "holes": st.integers(0, 3), "points": st.integers(0, 2),
            "closer": st.sampled_from(["save_as", "close_then_save_as", "with_then_save_as", "exception_then_save_as"]),
            "vals": st.lists(st.integers(-9, 9), min_size=3, max_size=6), "version": st.sampled_from([2.0, 2.1]),
        })
        return st.one_of(main, main, main, main, memory)

    def run_memory(self, p):
        """An in-memory workspace (no file yet) closed / saved to disk: every completed operation must be in the file."""
        from geoh5py.groups import DrillholeGroup
        from geoh5py.objects import Drillhole, Points
        from geoh5py.workspace import Workspace

        res = CaseResult()
        ws = Workspace(version=p["version"])
        target = env.new_path("mem")
        expect = {"points": [], "holes": []}
        twin = None
        try:
            try:
                with ws:
                    for k in range(p["points"]):
                        pts = Points.create(ws, name=f"p{k}", vertices=np.c_[np.arange(3.0) + k, np.zeros(3), np.zeros(3)])
                        pts.add_data({"v": {"values": np.asarray(p["vals"][:3], dtype=float)}})
                        expect["points"].append((f"p{k}", [float(v) for v in p["vals"][:3]]))
                    if p["holes"]:
                        grp = DrillholeGroup.create(ws, name="dh")
                        for k in range(p["holes"]):
                            hole = Drillhole.create(ws, parent=grp, name=f"h{k}", collar=[float(k), 0.0, 0.0],
                                                    surveys=np.asarray([[0.0, 0.0, -90.0], [10.0, 0.0, -90.0]]))
                            hole.add_data({"a": {"depth": np.asarray([0.0, 1.0, 2.0]), "values": np.asarray(p["vals"][:3], dtype=float) + k}})
                            expect["holes"].append((f"h{k}", [float(v) + k for v in p["vals"][:3]]))
                    if p["closer"] == "save_as":
                        ws.save_as(target)
                    elif p["closer"] == "close_then_save_as":
                        ws.close()
                        ws.save_as(target)
                    elif p["closer"] == "exception_then_save_as":
                        raise Boom("crash")
            except Boom:
                pass
            if p["closer"] in ("with_then_save_as", "exception_then_save_as"):
                ws.save_as(target)
            res.label("closer:memory:" + p["closer"])
            ws.close()
            if env.open_ids_of(target):
                res.fail(f"C11/handle-left-open/memory:{p['closer']}//", "HDF5 identifiers still open on the saved file")
                return res
            try:
                twin = Workspace(target, mode="r")
                for name, vals in expect["points"]:
                    ent = twin.get_entity(name)[0]
                    got = None if ent is None or not ent.get_data("v") else [float(x) for x in ent.get_data("v")[0].values]
                    if got != vals:
                        res.fail(f"C11/completed-op-missing/memory:{p['closer']}/Points/values", f"{name}: file holds {got}, written {vals}")
                        return res
                for name, vals in expect["holes"]:
                    ent = twin.get_entity(name)[0]
                    data = ent.get_data("a") if ent is not None else []
                    got = [float(x) for x in data[0].values] if data else None
                    if got != vals:
                        res.fail(f"C11/completed-op-missing/memory:{p['closer']}/Drillhole/values", f"{name}: file holds {got}, written {vals}")
                        return res
            except Exception as exc:
                res.fail(f"C11/cannot-reopen/memory:{p['closer']}//{type(exc).__name__}", f"{type(exc).__name__}: {exc}"[:300])
                return res
            res.nontrivial = p["holes"] + p["points"] >= 2
            return res
        except Exception as exc:
            res.fail(f"C11/closer-raises/memory:{p['closer']}//{type(exc).__name__}", f"{type(exc).__name__}: {exc}"[:300])
            return res
        finally:
            env.close_quietly(ws, twin)

    def shrink_candidates(self, program):
        if program.get("family") == "memory":
            return
        build = program["build"]
        ops = build["ops"]
        for i in range(len(ops)):
            if i < program["crash"]:
                cand = {**program, "build": {**build, "ops": ops[:i] + ops[i + 1:]}, "crash": program["crash"] - 1}
            else:
                cand = {**program, "build": {**build, "ops": ops[:i] + ops[i + 1:]}}
            yield cand
        if program["setters"]:
            yield {**program, "setters": []}

    def run_case(self, program):
        from geoh5py.shared.exceptions import Geoh5FileClosedError
        from geoh5py.shared.utils import fetch_active_workspace
        from geoh5py.workspace import Workspace

        if program.get("family") == "memory":
            return self.run_memory(program)
        res = CaseResult()
        build = program["build"]
        ops = build["ops"]
        crash = min(program["crash"], len(ops))
        closer = program["closer"]
        inner = CaseResult()
        run = tree.TreeRun({**build, "ops": ops[:crash]}, inner, set(), {"deferred_creation": False})
        twin = None
        extra_paths = []
        try:
            run.setup()
            last_reopen = max([i for i, op in enumerate(ops[:crash]) if op["op"] == "reopen"], default=-1)
            run.run_ops(0, last_reopen + 1)
            if run.stopped:
                res.label("build-stopped")
                return res
            world = run.worlds[0]
            ws = world.ws
            path = world.path
            in_block = crash - (last_reopen + 1)
            sentinel = Boom("crash point")
            caught = None
            snapshot_before = None
            try:
                with ws:
                    run.run_ops(last_reopen + 1, crash)
                    if run.stopped:
                        res.label("build-stopped")
                        return res
                    # references a user would still hold after the block
                    held = {u: world.entity(u) for u in world.nodes}
                    if program["observe_before_close"]:
                        snapshot_before = apisnap(ws, with_listings=False)["nodes"]
                    if closer == "exception":
                        raise sentinel
                    if closer == "explicit":
                        ws.close()
                    elif closer == "exception_after_close":
                        ws.close()
                        raise sentinel
                    elif closer == "fetch_active":
                        with fetch_active_workspace(ws, "r") as active:
                            len(active.objects)
                    elif closer == "save_as":
                        new_path = env.new_path("saved")
                        extra_paths.append(new_path)
                        ws.save_as(new_path)
                if closer == "helper_on_closed_exception":
                    # the block was left normally (workspace closed); a helper re-opens it and an exception escapes
                    with fetch_active_workspace(ws, "r") as active:
                        len(active.objects)
                        raise sentinel
                if closer == "helper_mode_switch_exception":
                    ws.open(mode="r")
                    with fetch_active_workspace(ws, "r+") as active:  # closes 'r', re-opens 'r+'
                        len(active.objects)
                        raise sentinel
            except Boom as exc:
                caught = exc
            except Exception as exc:
                res.fail(f"C11/closer-raises/{closer}//{type(exc).__name__}", f"{type(exc).__name__}: {exc}"[:400])
                return res
            res.label("closer:" + closer)
            # (1)
            if closer in ("exception", "exception_after_close", "helper_on_closed_exception", "helper_mode_switch_exception"):
                if caught is not sentinel:
                    res.fail(f"C11/exception-not-propagated/{closer}//", f"raised {sentinel!r}, caught {caught!r}")
                    return res
            caught = None
            # (2)
            gc.collect()
            for fpath in [path] + extra_paths:
                n_open = env.open_ids_of(fpath)
                if n_open:
                    res.fail(f"C11/handle-left-open/{closer}//", f"{n_open} HDF5 identifiers still open on {fpath.name}")
                    return res
            if ws._geoh5:
                res.fail(f"C11/workspace-still-open/{closer}//", "workspace._geoh5 is truthy after the block")
                return res
            # (3)
            for fpath in [path] + extra_paths:
                try:
                    twin_ws = Workspace(fpath, mode="r")
                except Exception as exc:
                    res.fail(f"C11/cannot-reopen/{closer}//{type(exc).__name__}", f"{fpath.name}: {type(exc).__name__}: {exc}"[:300])
                    return res
                try:
                    bad = check_valid(rawsnap(twin_ws.geoh5))
                    if bad:
                        res.fail(f"C11/file-invalid/{closer}/{bad[0][0]}/", f"{fpath.name}: {bad[0]}")
                        return res
                    snap = apisnap(twin_ws, with_listings=False)
                    diffs = diff_nodes(world.nodes, snap["nodes"])
                    if diffs:
                        uid, field, a, b = diffs[0]
                        cls = (world.nodes.get(uid) or snap["nodes"].get(uid) or {}).get("cls", "?")
                        res.fail(f"C11/completed-op-missing/{closer}/{cls}/{field}{tree.diff_cond(a, b)}",
                                 f"{fpath.name}: {uid} {field}: model={a!r:.200} file={b!r:.200}")
                        return res
                finally:
                    if fpath is path:
                        twin = twin_ws
                    else:
                        env.close_quietly(twin_ws)
            # (4) closed access, differential against the open twin
            never_loaded = 0
            calls = 0
            for uid_str, entity in held.items():
                other = twin.get_entity(uuid.UUID(uid_str))[0]
                if other is None:
                    continue
                for attr in entity_attrs(type(entity)) + ["entity_type"]:
                    outcome, value = self.get(entity, attr)
                    t_outcome, t_value = self.get(other, attr)
                    calls += 1
                    if outcome == "Geoh5FileClosedError":
                        if attr in ("values", "vertices", "cells"):
                            never_loaded += 1
                        continue
                    if outcome != "ok":
                        if outcome == t_outcome:
                            continue
                        res.fail(f"C11/closed-access-other-error/{type(entity).__name__}/{attr}/{outcome}",
                                 f"getter {attr} on a closed workspace raised {outcome}: {value}"[:300])
                        return res
                    if t_outcome == "ok" and value != t_value:
                        res.fail(f"C11/closed-access-stale/{type(entity).__name__}/{attr}/",
                                 f"closed workspace returns {value!r:.200}, the file holds {t_value!r:.200}")
                        return res
            first = next(iter(held.values()), None)
            for setter in program["setters"]:
                target = self.setter_target(held, setter)
                if target is None:
                    continue
                try:
                    self.apply_setter(target, setter)
                    res.fail(f"C11/closed-setter-silent/{type(target).__name__}/{setter}/",
                             f"assigning {setter} on a closed workspace returned normally (nothing can have been written)")
                    return res
                except Geoh5FileClosedError:
                    res.label("closed-setter-raises")
                except Exception as exc:
                    res.fail(f"C11/closed-setter-other-error/{type(target).__name__}/{setter}/{type(exc).__name__}",
                             f"{type(exc).__name__}: {exc}"[:300])
                    return res
                break  # a refused setter may have changed memory: one per case
            # (5) open() restores access
            did_set = any(lab == "closed-setter-raises" for lab in res.labels)
            if closer != "save_as" and not did_set:
                env.close_quietly(twin)
                twin = None
                try:
                    ws.open()
                except Exception as exc:
                    res.fail(f"C11/open-raises/{closer}//{type(exc).__name__}", f"{type(exc).__name__}: {exc}"[:300])
                    return res
                snap = apisnap(ws, with_listings=False)
                diffs = diff_nodes(world.nodes, snap["nodes"])
                if diffs:
                    uid, field, a, b = diffs[0]
                    res.fail(f"C11/open-does-not-restore/{closer}//{field}", f"{uid} {field}: model={a!r:.200} after open()={b!r:.200}")
                    return res
                for uid_str, entity in held.items():
                    for attr in ("name", "values", "vertices"):
                        if attr in entity_attrs(type(entity)):
                            outcome, value = self.get(entity, attr)
                            if outcome != "ok":
                                res.fail(f"C11/held-entity-unusable-after-open/{type(entity).__name__}/{attr}/{outcome}", str(value)[:300])
                                return res
                            want = world.nodes[uid_str].get(attr)
                            if value != want:
                                res.fail(f"C11/held-entity-stale-after-open/{type(entity).__name__}/{attr}/{tree.diff_cond(want, value)}",
                                         f"held {attr}={value!r:.200} model={want!r:.200}")
                                return res
                ws.close()
            res.count("closed_access_calls", calls)
            res.count("closed_access_never_loaded", never_loaded)
            mutated = any(op["op"] in tree.MUTATORS for op in ops[last_reopen + 1:crash])
            res.nontrivial = 0 < crash < len(ops) and mutated and never_loaded > 0
            res.info = {"crash": crash, "ops": len(ops), "in_block": in_block}
            held.clear()
            return res
        finally:
            env.close_quietly(twin)
            run.shutdown()

    def get(self, entity, attr):
        try:
            value = getattr(entity, attr)
            if attr == "entity_type":
                value = value.name
            return "ok", canon_value(value)
        except Exception as exc:
            return type(exc).__name__, str(exc)

    def setter_target(self, held, setter):
        for entity in held.values():
            if setter == "values":
                if type(entity).__name__ in ("FloatData", "IntegerData"):
                    return entity
            elif setter == "metadata":
                if hasattr(entity, "children") and "survey" not in type(entity).__module__ and type(entity).__name__ != "RootGroup":
                    return entity
            elif type(entity).__name__ != "RootGroup":
                return entity
        return None

    def apply_setter(self, target, setter):
        if setter == "name":
            target.name = "closed"
        elif setter in ("public", "visible"):
            setattr(target, setter, not getattr(target, setter))
        elif setter == "values":
            target.values = np.zeros(target.n_values or 1)
        elif setter == "metadata":
            target.metadata = {"closed": 1}


CHECK = C11()
