"""C14 — ui.json files round-trip (InputFile -> write_ui_json -> read_ui_json)."""
from ..core import CaseResult, Check
from ..engines import uijson


def _lift_guards(program):
    from ..core import phash

    if isinstance(program, dict) and not program.get("allow_known") and int(phash(program), 16) % 2 == 0:
        return {**program, "allow_known": True}
    return program


class C14(Check):
    pid = "C14"
    level = "exploration"
    budgets = {"quick": (120, 16), "thorough": (1500, 16)}
    ops_key = "forms"
    rule = (
        "A program = workspace spec (1-3 Points/Curve objects with float/int/text data and property groups of "
        "every type, nested container groups, optionally a drillhole group with a hole and data) + header "
        "members + 1-10 forms built through every templates.* function (bool, integer, float, string, choice, "
        "multi-choice, file, group, object, multi-object, data, property-group data, data-or-value, drillhole "
        "group data, range) with optional/enabled, group, groupOptional, dependency, dependencyType members and "
        "values of each form's domain (ints to +-2^63, floats incl. +-inf/sub-normals/-0.0, unicode, look-alike "
        "strings, identifiers as str/UUID/braces/upper-case/entity). Oracle: InputFile(ui_json) -> data; "
        "write_ui_json; strict JSON parse of the text; read_ui_json; per parameter: data after read == data "
        "before write (entities by uid+class, workspaces by real path, floats bit-exact), enabled equal, None "
        "iff disabled, data == generated value for values outside the documented conversions (''->None, "
        "'inf'->float, uuid text->entity, *.geoh5->workspace), demote(promote(x)) == x and promote(demote(y)) "
        "== y on identifier dictionaries. Non-trivial = file constructed, written and re-read, >=3 forms, >=1 "
        "enabled entity-valued form and >=1 disabled or optional form. Distinct = program hash."
    )
    assumptions = [
        "NaN is not a ui.json value (documented exception) and is never generated",
        "switch members are written as Geoscience ANALYST exports them: a parameter greyed out by its "
        "group checkbox or dependency carries enabled=false; 10 % of forms break this on purpose and are "
        "counted as unspecified_forms (only write/read success and JSON validity are checked for them)",
        "a ui.json refused at construction (value None for a required parameter, unknown uuid text) has "
        "nothing to round-trip: counted under construct-rejected:*",
        "integers are limited to [-2^63, 2^63] as in the design",
        "guards (lifted in the 10 % of programs with allow_known, failures then carry a /known:<tag> suffix): "
        "dhdata-optional-none = the 'optional': None member that templates.drillhole_group_data stores is dropped; "
        "group-owner-propagation = a group member whose enabled differs from the enabled of the form carrying "
        "groupOptional (owner enabled, or groupOptional false) is moved out of the group",
        "a string ending in .geoh5 is only generated as a path inside the scratch directory (the reader opens, "
        "and thereby creates, such files)",
    ]

    def strategy(self, tier):
        # most of the engine's guards protected findings that are fixed by now (known_findings.json): half of the
        # programs run with the guards lifted so that those areas are searched again
        return uijson.roundtrip_program_strategy(tier).map(_lift_guards)

    def run_case(self, program):
        res = CaseResult()
        stats = uijson.run_roundtrip(program, res, "C14")
        optional_forms = sum(1 for s in program.get("forms") or [] if (s.get("sw") or {}).get("opt"))
        res.nontrivial = bool(stats["roundtrip"] and stats["forms"] >= 3 and stats["entity_forms"] >= 1
                              and (stats["disabled_forms"] >= 1 or optional_forms >= 1) and not res.fails)
        if stats["roundtrip"]:
            res.label("roundtrip-done")
        res.label("forms:" + ("1-2" if stats["forms"] < 3 else "3-5" if stats["forms"] < 6 else "6-10"))
        if stats["entity_forms"]:
            res.label("has-enabled-entity-form")
        if stats["disabled_forms"]:
            res.label("has-disabled-form")
        if res.nontrivial:
            res.label("nontrivial")
        res.info.update({"forms": stats["forms"], "kinds": sorted(stats["kinds"])})
        return res

    def shrink_candidates(self, program):
        from ..engines.uijson import DEFAULT_WS

        if program.get("ws") != DEFAULT_WS:
            yield {**program, "ws": DEFAULT_WS}
        if program.get("geoh5") != "path":
            yield {**program, "geoh5": "path"}
        if program.get("ident"):
            yield {**program, "ident": []}
        top = program.get("top") or {}
        if top.get("extras"):
            yield {**program, "top": {**top, "extras": []}}
        for i, spec in enumerate(program.get("forms") or []):
            sw = spec.get("sw") or {}
            for key, val in (("raw", None), ("dep", None), ("grp", None), ("gopt", None), ("opt", None),
                             ("consistent", True), ("keep", True)):
                if sw.get(key) != val:
                    forms = list(program["forms"])
                    forms[i] = {**spec, "sw": {**sw, key: val}}
                    yield {**program, "forms": forms}
            for key, val in (("tooltip", None), ("main", True), ("label", "L"), ("uidform", "str"),
                             ("vmin", None), ("vmax", None)):
                if key in spec and spec.get(key) != val:
                    forms = list(program["forms"])
                    forms[i] = {**spec, key: val}
                    yield {**program, "forms": forms}


CHECK = C14()
