"""C09 — an operation on one entity leaves unrelated stored entities untouched."""
from .. import env
from ..apisnap import apisnap
from ..core import CaseResult, Check
from hypothesis import strategies as st

from ..engines import concat, tree
from ..rawsnap import file_sha, node_digests, rawsnap


class C09(Check):
    pid = "C09"
    level = "exploration"
    budgets = {"quick": (70, 16), "thorough": (1200, 16)}
    rule = (
        "Tree programs; every single mutating call is a test point: per-node split digests "
        "{attrs, datasets, children, type, property groups} of all nodes in Data/Groups/Objects/Types and of the "
        "project header are taken with plain h5py on the library's open handle before and after the call. Allowed to "
        "differ: the target entity, the children / property-group parts of the parents it leaves or joins, nodes "
        "created or deleted by the call, type nodes appearing or disappearing; everything else must be identical. "
        "Then each resulting file is opened with mode r and r+, fully read through the API and closed: digests "
        "must be identical and, for mode r, the file bytes (SHA-256) too. One program in four runs on drillhole groups "
        "(concatenated storage, groups may share a name, ordinary objects next to them, re-open of the same Workspace "
        "object): the decoded stored content of every group the operation does not address must be identical and all "
        "other holes must read back their model values. Non-trivial = a mutation applied while >=3 "
        "other stored entities existed, one of them a sibling of the target's kind. Distinct = program hash."
    )
    assumptions = ["HDF5-internal layout is not compared in r+ mode (byte equality there is only counted)"]

    def cfg(self, tier):
        # constructive prefix: an object with visual parameters, copied without its children, then the colour of the
        # copy is edited (whatever the copy's visual parameters are, the source's stored node must not change)
        visual = [{"op": "object", "cls": "Points", "parent": 0, "name": "p", "geom": {"n": 3, "g": [1, 2, 3, 4]}, "deferred": False},
                  {"op": "visual", "obj": 0},
                  {"op": "copy", "who": 0, "to": None, "children": False, "clear": False, "ws": 0, "twice": False,
                   "again_after_remove": False, "again_after_pg_delete": False},
                  {"op": "visual_edit", "obj": 1, "rgb": [200, 100, 50]},
                  {"op": "visual_edit", "obj": 0, "rgb": [10, 20, 30]}]
        cfg = {"max_ops": 20, "prefixes": [[], [], [], [], visual]}
        if tier == "thorough":
            cfg.update({"max_ops": 35, "object_classes": tree.F.OBJECT_CLASSES,
                        "group_classes": tree.F.GROUP_CLASSES})
        return cfg

    def strategy(self, tier):
        trees = tree.program_strategy(self.cfg(tier))
        holes = concat.program_strategy(max_ops=18 if tier == "quick" else 28).map(lambda p: {**p, "family": "concat"})
        return st.one_of(trees, trees, trees, holes)

    def run_case(self, program):
        from geoh5py.workspace import Workspace

        res = CaseResult()
        if program.get("family") == "concat":
            # drillhole groups: an operation on one group must leave the stored content of every other group
            # untouched, and every other hole must read back its model values (compared after every step)
            run = concat.ConcatRun({**program, "check_every": True}, res, pid="C09")
            stats = run.execute()
            res.label("family:concat")
            res.nontrivial = res.counters.get("untouched_groups_compared", 0) >= 1 and stats["ops"] >= 3 and not res.fails
            return res
        res.label("family:tree")
        run, stats = tree.run_tree(program, res, {"C09"})
        n_final = sum(len(w.nodes) - 1 for w in run.worlds)
        res.nontrivial = (res.counters.get("untouched_nodes_compared", 0) >= 3 and stats["effective"] >= 4
                          and not res.fails)
        if res.fails:
            return res
        # identity programs: open / read everything / close
        for world in run.worlds:
            for mode in ("r", "r+"):
                sha0 = file_sha(world.path)
                dig0 = node_digests(rawsnap(str(world.path)))
                ws = Workspace(world.path, mode=mode)
                try:
                    apisnap(ws)
                finally:
                    env.close_quietly(ws)
                sha1 = file_sha(world.path)
                dig1 = node_digests(rawsnap(str(world.path)))
                if dig0 != dig1:
                    changed = sorted(str(k) for k in set(dig0) | set(dig1) if dig0.get(k) != dig1.get(k))
                    res.fail(f"C09/open-close-changes-content/identity/{mode}/", f"open(mode={mode})/read/close changed {changed[:5]}")
                    return res
                if sha0 != sha1:
                    if mode == "r":
                        res.fail("C09/open-close-changes-bytes/identity/r/", "file bytes changed by a read-only open/read/close")
                        return res
                    res.count("rplus_bytes_changed")
                res.count("identity_programs")
        return res

    def shrink_candidates(self, program):
        for key, val in (("ws2", False), ("observe", "reopen"), ("version", 2.1)):
            if program.get(key) != val:
                cand = dict(program)
                cand[key] = val
                yield cand


CHECK = C09()
