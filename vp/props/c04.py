"""C04 — concatenated drillhole storage keeps each hole's data intact and separate."""
from ..core import CaseResult, Check
from ..engines import concat


class C04(Check):
    pid = "C04"
    level = "exploration"
    budgets = {"quick": (60, 16), "thorough": (1500, 16)}
    rule = (
        "Programs of 1-30 operations on 1-2 drillhole groups with up to 5 holes each, format version drawn from "
        "{2.0, 2.1}: add hole, add depth / interval data (names from a pool of 4 so holes share names; table lengths "
        "from {1,2,3,7}; two depth and two interval tables per hole with fixed, mutually non-collocated locations; "
        "float32-representable floats incl. NaN, int32, short text), update values, rename hole / data, remove data "
        "(workspace / hole), remove hole (workspace / group), remove property group, copy hole, copy group (same / "
        "other workspace), group-wide push of values, re-open. Reference model hole -> table -> data -> values. After "
        "operations (every step or before each close) and after re-open: every hole/data reads back the model "
        "values (separation follows: untouched holes are compared too), the group-wide depth_table equals the "
        "per-hole rows in index order padded with the kind's no-data value; after each close a raw h5py predicate: "
        "every Index/<label> exactly tiles its data array (no gap, overlap, duplicate, zero-size or stale row), "
        "every array has an index and vice versa, the attribute records are exactly one per live hole / data / "
        "property group with the right Property:<name> keys, Concatenated object IDs == live holes. Non-trivial = "
        ">=2 holes sharing a data name and an update/remove/rename after both were written. Distinct = program hash."
    )
    assumptions = ["values are float32-representable so that 'reads back exactly' is meaningful for float32 storage",
                   "text values are always given at the table length (padding of text depends on the spelling of "
                   "the type keyword)", "duplicate data names within one hole are a documented refusal (not generated)"]

    def strategy(self, tier):
        return concat.program_strategy(max_ops=30 if tier == "quick" else 45)

    def run_case(self, program):
        res = CaseResult()
        run = concat.ConcatRun(program, res)
        stats = run.execute()
        res.nontrivial = stats["shared_name_mutation"] and not res.fails
        for kind in stats["kinds"]:
            res.label("op:" + kind)
        res.label(f"version:{program.get('version')}")
        res.info = {"ops": stats["ops"], "holes": sum(len(g.holes) for g in run.groups)}
        return res

    def shrink_candidates(self, program):
        if program.get("check_every"):
            yield {**program, "check_every": False}
        if program.get("version") != 2.1:
            yield {**program, "version": 2.1}


CHECK = C04()
