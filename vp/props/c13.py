"""C13 — spatial selection returns exactly what lies inside the box."""
from __future__ import annotations

import numpy as np
from hypothesis import strategies as st

from .. import env
from ..core import CaseResult, Check
from ..engines import spatial as S


# ================================================================================== strategy
def _grid2d(family):
    exact = family == "A"
    rot = st.just(0.0) if exact else st.one_of(st.sampled_from(S.ANGLE_POOL), st.sampled_from(S.ANGLE_POOL),
                                               st.floats(-360, 360, allow_nan=False).map(lambda x: round(x, 6)))
    dip = st.just(0.0) if exact else st.one_of(st.sampled_from(S.DIP_POOL),
                                               st.floats(-90, 90, allow_nan=False).map(lambda x: round(x, 6)))
    size = st.sampled_from([1.0, 1.0, 2.0, -1.0, -2.0, 3.0, 0.5])
    return st.fixed_dictionaries({
        "cls": st.just("Grid2D"), "origin": S.pt3, "nu": st.integers(1, 8), "nv": st.integers(1, 6),
        "du": size, "dv": size, "rot": rot, "dip": dip, "data": S.data_sets(["CELL"]),
        # family B: the final rotation / dip are assigned through the setters of a grid created with these ones, after
        # its cell centres were computed once (a selection must follow the current geometry, not a cached one)
        "regeom": st.none() if exact else st.one_of(st.none(), st.none(), st.fixed_dictionaries({
            "rot": st.sampled_from([0.0, 30.0, 90.0, -45.0]), "dip": st.sampled_from([0.0, 30.0, 90.0, 55.0]),
            "order": st.integers(0, 1)})),
    })


def _block(family):
    rot = st.just(0.0) if family == "A" else st.one_of(st.sampled_from(S.ANGLE_POOL),
                                                       st.floats(-360, 360, allow_nan=False).map(lambda x: round(x, 6)))
    steps = st.lists(st.sampled_from([1, 1, 2, 3]), min_size=1, max_size=4)
    return st.fixed_dictionaries({
        "cls": st.just("BlockModel"), "origin": S.pt3, "u": steps, "v": steps,
        "z": st.lists(st.sampled_from([1, 2]), min_size=1, max_size=3), "zdown": st.booleans(),
        "rot": rot, "data": S.data_sets(["CELL"], max_size=2),
    })


def _octree(family):
    rot = st.just(0.0) if family == "A" else st.one_of(st.sampled_from(S.ANGLE_POOL),
                                                       st.floats(-360, 360, allow_nan=False).map(lambda x: round(x, 6)))
    size = st.sampled_from([1.0, 2.0, -1.0, 0.5])
    return st.fixed_dictionaries({
        "cls": st.just("Octree"), "origin": S.pt3, "nu": st.sampled_from([1, 2, 4]), "nv": st.sampled_from([1, 2, 4]),
        "nw": st.sampled_from([1, 2, 2]), "du": size, "dv": size, "dw": size, "rot": rot,
        "splits": st.lists(st.booleans(), min_size=0, max_size=6), "data": S.data_sets(["CELL"], max_size=2),
    })


@st.composite
def _cloud(draw, family, cls):
    n = draw(st.integers(1, 8))
    spec = {"cls": cls, "pts": draw(st.lists(S.pt3, min_size=n, max_size=n)),
            "scale": 1.0 if family == "A" else draw(st.sampled_from([1.0, 0.1, 0.1, 1000.0, 1 / 3.0, 0.7]))}
    # the object is created somewhere else, its extent is looked at once, then the vertices are assigned where they belong
    spec["moved"] = draw(st.sampled_from([None, None, None, [100.0, 0.0, 0.0], [-7.5, 12.0, 3.0]]))
    if cls == "Points":
        spec["data"] = draw(S.data_sets(["VERTEX"]))
    else:
        spec["cells"] = draw(S.cells_strategy(n, 2 if cls == "Curve" else 3, min_cells=1, max_cells=8))
        spec["data"] = draw(S.data_sets(["VERTEX", "CELL"]))
    return spec


def _drillhole():
    return st.fixed_dictionaries({"cls": st.just("Drillhole"), "collar": S.pt3,
                                  "with_data": st.sampled_from([False] * 9 + [True])})


def _object(family):
    return st.one_of(
        _cloud(family, "Points"), _cloud(family, "Curve"), _cloud(family, "Curve"), _cloud(family, "Surface"),
        _cloud(family, "Surface"), _grid2d(family), _grid2d(family), _grid2d(family), _block(family),
        _octree(family), _drillhole(),
    )


def _box(family):
    idx = st.integers(0, 40)
    width = st.sampled_from([0, 1, 1, 2, 2, 3, 3, 5, 8, 40])
    modes = ["free"] * 8 + ["all", "miss", "point", "point", "touch", "touch"] + (["thin"] * 5 + ["touch"] * 6 if family == "B" else ["thin"])
    return st.fixed_dictionaries({
        "mode": st.sampled_from(modes), "axis": st.sampled_from([0, 1, 1, 2]),
        "a": st.lists(idx, min_size=3, max_size=3), "d": st.lists(width, min_size=3, max_size=3),
    })


def _query(family):
    return st.fixed_dictionaries({
        "t": st.integers(-2, 3), "dims": st.sampled_from([2, 2, 3]), "inv": st.sampled_from([False, False, True]),
        "ws2": st.sampled_from([False, False, False, True]), "box": _box(family),
    })


@st.composite
def program_strategy(draw, tier):
    family = draw(st.sampled_from(["A", "B"]))
    objs = draw(st.lists(_object(family), min_size=1, max_size=3))
    return {
        "family": family,
        "objs": objs,
        "layout": draw(st.sampled_from(["free", "free", "free", "flat", "nested", "nested+empty"])),
        "ops": draw(st.lists(_query(family), min_size=1, max_size=4 if tier == "quick" else 6)),
        "allow_known": draw(st.sampled_from([False] * 9 + [True])),
    }


# ================================================================================== interpreter
class Node:
    """Group node of the scene (reference side)."""

    def __init__(self, name, entity):
        self.name = name
        self.entity = entity
        self.members = []  # Model or Node

    def models(self):
        out = []
        for m in self.members:
            out.extend(m.models() if isinstance(m, Node) else [m])
        return out


class Query:
    def __init__(self, lo, hi, dims, inv):
        self.lo, self.hi, self.dims, self.inv = lo, hi, dims, inv

    @property
    def extent(self):
        return np.asarray([self.lo[: self.dims], self.hi[: self.dims]], dtype=float)

    @property
    def tag(self):
        return f"{'inverse' if self.inv else 'direct'},{self.dims}d"


def selection(m: S.Model, q: Query):
    """Reference selection for one object: dict(q=per element, kept=cells kept, vmask=vertices kept,
    miss=box misses bounding box, any=bool, sel=the mask mask_by_extent must report)."""
    qv = S.qualify(m.coords, q.lo, q.hi, q.dims, q.inv)
    out = {"q": qv, "miss": S.bbox_miss(m.coords, q.lo, q.hi, q.dims)}
    if m.cells is not None:
        kept, vmask = S.cell_rule(qv, m.cells)
        out.update(kept=kept, sel=vmask)
    else:
        out["sel"] = qv
    out["any"] = any(out["sel"])
    inside = S.qualify(m.coords, q.lo, q.hi, q.dims, False)
    out["boundary"] = any(
        ins and any(c[k] == q.lo[k] or c[k] == q.hi[k] for k in range(q.dims)) for c, ins in zip(m.coords, inside)
    )
    return out


def grid_ranges(m, sel):
    nu = m.grid["nu"]
    cols = sorted({i % nu for i, s in enumerate(sel) if s})
    rows = sorted({i // nu for i, s in enumerate(sel) if s})
    return cols, rows


def known_trigger(m: S.Model, q: Query, info):
    """Label of the open finding this (object, query) pair would run into, else None."""
    if m.cls == "Drillhole":
        inside = S.inside(m.coords[0], q.lo, q.hi, q.dims)
        if m.dh_data and inside:
            return "drillhole-with-data"
        if q.inv and inside:
            return "inverse-collar-inside"
        return None
    if m.cls == "Grid2D" and not q.inv and info["any"]:
        cols, rows = grid_ranges(m, info["sel"])
        if cols[-1] - cols[0] + 1 != len(cols) or rows[-1] - rows[0] + 1 != len(rows):
            return "noncontiguous-selection"
    for _name, kind, _assoc, _exp in m.data:
        if kind != "text":
            continue
        if m.cls in ("BlockModel", "Octree") and not info["miss"]:
            return "text-data-on-grid"  # GridObject.copy multiplies the values by NaN
        if m.cls == "Points" and not info["miss"] and not info["any"]:
            return "text-data-empty-selection"  # zero-length text array cannot be written
    return None


class Ctx:
    def __init__(self, res, allow_known):
        self.res = res
        self.allow_known = allow_known


def child_named(entity, name):
    return [c for c in getattr(entity, "children", []) if getattr(c, "name", None) == name]


def check_data(ctx, m, result, pick, tag, blank=False):
    """Each source data set must appear once on the copy with the entries of the picked elements.

    pick(assoc) -> list of bool over the source elements of that association.
    blank=False: entries of unpicked elements are dropped; blank=True: replaced by the kind's no-data."""
    for name, kind, assoc, exp in m.data:
        found = child_named(result, name)
        if len(found) != 1:
            ctx.res.fail(f"C13/data-missing/copy_from_extent/{m.cls}/{tag}",
                         f"{m.name}: {len(found)} children named {name} on the copy")
            continue
        mask = pick(assoc)
        if blank:
            want = [v if keep else S.NODATA[kind] for v, keep in zip(exp, mask)]
        else:
            want = [v for v, keep in zip(exp, mask) if keep]
        got = S.tolist(found[0].values) or []
        if got != want:
            ctx.res.fail(f"C13/data-differs/copy_from_extent/{m.cls}/{tag}",
                         f"{m.name}.{name} ({assoc},{kind}): got {got[:30]} want {want[:30]}")


def close(a, b, tol):
    return len(a) == len(b) and all(abs(x - y) <= tol for x, y in zip(a, b))


def check_object_copy(ctx, m: S.Model, q: Query, result, trigger):
    """Clauses of 'copying by extent yields exactly that selection' for one object."""
    res = ctx.res
    info = selection(m, q)
    tag = trigger or q.tag
    cls = m.cls
    if result is None:
        if not (info["miss"] or not info["any"]):
            res.fail(f"C13/none-but-selected/copy_from_extent/{cls}/{tag}",
                     f"{m.name}: nothing returned although {sum(info['sel'])} elements qualify; box {q.lo} {q.hi}")
        return
    if type(result).__name__ != cls:
        res.fail(f"C13/copy-class/copy_from_extent/{cls}/{tag}", f"copy is a {type(result).__name__}")
        return
    if cls == "Drillhole":
        if not info["any"]:
            res.fail(f"C13/copy-not-selection/copy_from_extent/{cls}/{tag}",
                     f"{m.name}: hole copied although its collar {m.coords[0]} does not qualify "
                     f"(inverse={q.inv}, box {q.lo} {q.hi})")
            return
        collar = [float(result.collar[k]) for k in ("x", "y", "z")]
        if collar != m.coords[0]:
            res.fail(f"C13/vertices-differ/copy_from_extent/{cls}/{tag}", f"collar {collar} != {m.coords[0]}")
        if m.dh_data:
            found = child_named(result, "assay")
            if len(found) != 1 or (S.tolist(found[0].values) or [])[:3] != [1.0, 2.0, 3.0]:
                res.fail(f"C13/data-differs/copy_from_extent/{cls}/{tag}", "assay data not copied with the hole")
        return
    if cls in ("Points", "Curve", "Surface"):
        sel = info["sel"]
        want = [c for c, keep in zip(m.coords, sel) if keep]
        got = S.coords_list(result.vertices) or []
        if got != want:
            res.fail(f"C13/vertices-differ/copy_from_extent/{cls}/{tag}",
                     f"{m.name}: copy vertices {got[:12]} want {want[:12]}; box {q.lo} {q.hi} inverse={q.inv}")
            return
        if cls != "Points":
            kept_cells = [cell for cell, keep in zip(m.cells, info["kept"]) if keep]
            cells = result.cells
            got_cells = [] if cells is None else [tuple(int(v) for v in row) for row in np.asarray(cells).tolist()]
            if len(got_cells) != len(kept_cells):
                res.fail(f"C13/cell-count/copy_from_extent/{cls}/{tag}",
                         f"{m.name}: {len(got_cells)} cells on the copy, {len(kept_cells)} source cells qualify")
                return
            for j, (gcell, scell) in enumerate(zip(got_cells, kept_cells)):
                if any(v < 0 or v >= len(got) for v in gcell) or sorted(got[v] for v in gcell) != sorted(m.coords[v] for v in scell):
                    res.fail(f"C13/cell-coords-differ/copy_from_extent/{cls}/{tag}",
                             f"{m.name}: copied cell {j} {gcell} does not connect the coordinates of source cell {scell}")
                    break
        check_data(ctx, m, result, lambda assoc: sel if assoc == "VERTEX" else info["kept"], tag)
        return
    # ---- grids
    scale = 1.0 + max((abs(x) for c in m.coords for x in c), default=0.0)
    tol = 1e-9 * scale
    got = S.coords_list(result.centroids) or []
    if cls in ("BlockModel", "Octree"):
        if len(got) != len(m.coords) or not all(close(a, b, tol) for a, b in zip(got, m.coords)):
            res.fail(f"C13/grid-geometry/copy_from_extent/{cls}/{tag}", f"{m.name}: copy centroids differ from source")
            return
        check_data(ctx, m, result, lambda assoc: info["sel"], tag, blank=True)
        return
    # ---- Grid2D: an index-aligned sub-grid
    src = m.obj
    for attr in ("rotation", "dip", "u_cell_size", "v_cell_size"):
        if getattr(result, attr) != getattr(src, attr):
            res.fail(f"C13/subgrid-attribute/copy_from_extent/{cls}/{tag}",
                     f"{m.name}: {attr} {getattr(result, attr)} != {getattr(src, attr)}")
            return
    nu, nv = m.grid["nu"], m.grid["nv"]
    cu, cv = int(result.u_count), int(result.v_count)
    if not got or len(got) != cu * cv or cu > nu or cv > nv:
        res.fail(f"C13/subgrid-shape/copy_from_extent/{cls}/{tag}", f"{m.name}: copy {cu}x{cv} of source {nu}x{nv}")
        return
    # locate the copy's first cell among the source centroids
    best = min(range(len(m.coords)), key=lambda i: sum((a - b) ** 2 for a, b in zip(m.coords[i], got[0])))
    i0, j0 = best % nu, best // nu
    aligned = i0 + cu <= nu and j0 + cv <= nv and all(
        close(got[i + j * cu], m.coords[(i0 + i) + (j0 + j) * nu], tol) for j in range(cv) for i in range(cu)
    )
    sel = info["sel"]
    if not aligned:
        res.fail(f"C13/subgrid-not-aligned/copy_from_extent/{cls}/{tag}",
                 f"{m.name}: copy {cu}x{cv} at origin {result.origin} is not an index range of the source "
                 f"{nu}x{nv}; box {q.lo} {q.hi}")
        return
    if info["any"]:  # (nothing qualifies: only a fully blanked sub-grid is acceptable in place of None)
        cols, rows = grid_ranges(m, sel)
        want_rng = (cols[0], cols[-1], rows[0], rows[-1])
        got_rng = (i0, i0 + cu - 1, j0, j0 + cv - 1)
        covers = (got_rng[0] <= want_rng[0] and got_rng[1] >= want_rng[1]
                  and got_rng[2] <= want_rng[2] and got_rng[3] >= want_rng[3])
        if not covers or (not q.inv and got_rng != want_rng):
            res.fail(f"C13/subgrid-range/copy_from_extent/{cls}/{tag}",
                     f"{m.name}: copy covers columns {got_rng[:2]} rows {got_rng[2:]}, selected cells span columns "
                     f"{want_rng[:2]} rows {want_rng[2:]} (selected columns {cols} rows {rows}); box {q.lo} {q.hi}")
            return
    # values: source value where the cell qualifies, no-data elsewhere
    index = [(i0 + i) + (j0 + j) * nu for j in range(cv) for i in range(cu)]
    for name, kind, _assoc, exp in m.data:
        found = child_named(result, name)
        if len(found) != 1:
            res.fail(f"C13/data-missing/copy_from_extent/{cls}/{tag}", f"{m.name}: {len(found)} children named {name}")
            continue
        want = [exp[k] if sel[k] else S.NODATA[kind] for k in index]
        gotv = S.tolist(found[0].values) or []
        if gotv != want:
            res.fail(f"C13/data-differs/copy_from_extent/{cls}/{tag}",
                     f"{m.name}.{name} ({kind}): got {gotv[:30]} want {want[:30]}")


def check_group_copy(ctx, node: Node, q: Query, result):
    res = ctx.res
    models = node.models()
    infos = [selection(m, q) for m in models]
    if result is None:
        for m, info in zip(models, infos):
            if info["any"] and not info["miss"]:
                res.fail(f"C13/none-but-selected/copy_from_extent/Group/{q.tag}",
                         f"group {node.name}: nothing returned although {m.name} ({m.cls}) has qualifying elements")
                break
        return
    _walk_group(ctx, node, q, result)


def _walk_group(ctx, node, q, result):
    res = ctx.res
    expected_names = {m.name for m in node.members}
    for child in result.children:
        if getattr(child, "name", None) not in expected_names:
            res.fail(f"C13/group-extra-child/copy_from_extent/Group/{q.tag}",
                     f"group copy {node.name} has unexpected child {getattr(child, 'name', child)}")
    for member in node.members:
        found = child_named(result, member.name)
        if len(found) > 1:
            res.fail(f"C13/group-extra-child/copy_from_extent/Group/{q.tag}", f"{member.name} copied {len(found)} times")
            continue
        got = found[0] if found else None
        if isinstance(member, Node):
            if got is None:
                check_group_copy(ctx, member, q, None)
            else:
                _walk_group(ctx, member, q, got)
        else:
            info = selection(member, q)
            trigger = known_trigger(member, q, info)
            check_object_copy(ctx, member, q, got, trigger)


def check_source_intact(ctx, models, tag):
    for m in models:
        if m.cls == "Drillhole":
            continue
        for name, _kind, _assoc, exp in m.data:
            found = child_named(m.obj, name)
            if len(found) != 1 or (S.tolist(found[0].values) or []) != exp:
                ctx.res.fail(f"C13/source-modified/copy_from_extent/{m.cls}/{tag}",
                             f"values of {m.name}.{name} changed on the source after the extent copy")
        now = S.coords_list(m.obj.vertices if m.cls in ("Points", "Curve", "Surface") else m.obj.centroids)
        if now != m.coords:
            ctx.res.fail(f"C13/source-modified/copy_from_extent/{m.cls}/{tag}", f"geometry of {m.name} changed")


def check_mask(ctx, m: S.Model, q: Query, info):
    """mask_by_extent of the object and of its data children against the reference."""
    res = ctx.res
    try:
        got = m.obj.mask_by_extent(q.extent, inverse=q.inv)
    except Exception as exc:  # the statement gives selection a defined result for every box
        res.fail(f"C13/mask-raises/mask_by_extent/{m.cls}/{type(exc).__name__}", f"{m.name}: {exc!r}; box {q.lo} {q.hi}")
        return
    want = info["sel"]
    if got is None:
        if not (info["miss"] or not info["any"]):
            res.fail(f"C13/none-but-selected/mask_by_extent/{m.cls}/{q.tag}",
                     f"{m.name}: None although {sum(want)} elements qualify; box {q.lo} {q.hi}")
    else:
        arr = np.asarray(got)
        if arr.dtype != bool or arr.shape != (len(want),) or arr.tolist() != want:
            res.fail(f"C13/mask-differs/mask_by_extent/{m.cls}/{q.tag}",
                     f"{m.name}: got {arr.astype(int).tolist()} want {[int(v) for v in want]}; box {q.lo} {q.hi} "
                     f"coords {m.coords[:10]} cells {m.cells}")
    # data children: vertex data of point clouds, cell data of grids and cell objects
    for name, _kind, assoc, _exp in m.data:
        if assoc == "VERTEX" and m.cls != "Points":
            continue
        want_d = info["q"] if m.cells is None else [all(info["q"][v] for v in cell) for cell in m.cells]
        child = child_named(m.obj, name)[0]
        try:
            got_d = child.mask_by_extent(q.extent, inverse=q.inv)
        except Exception as exc:
            res.fail(f"C13/mask-raises/data.mask_by_extent/{m.cls}/{type(exc).__name__}", f"{m.name}.{name}: {exc!r}")
            continue
        if got_d is None or np.asarray(got_d).tolist() != want_d:
            res.fail(f"C13/mask-differs/data.mask_by_extent/{m.cls}/{assoc},{q.tag}",
                     f"{m.name}.{name}: got {None if got_d is None else np.asarray(got_d).astype(int).tolist()} "
                     f"want {[int(v) for v in want_d]}")


class C13(Check):
    pid = "C13"
    level = "exploration"
    budgets = {"quick": (360, 16), "thorough": (1800, 16)}
    rule = (
        "A program = a scene of 1-3 objects (point cloud, curve, surface with arbitrary index tuples as cells, "
        "Grid2D any rotation/dip/negative sizes, BlockModel, Octree with explicit refinement, Drillhole; free, in "
        "a group, or in nested groups incl. an empty one) with 0-3 data sets each (float/int/bool/referenced/text; "
        "vertex or cell) + 1-4 queries (target object or group, 2-D/3-D extent, inverse, same or other "
        "workspace). Family A: half-integer lattice coordinates, unrotated grids, box faces drawn from "
        "{c-1/2, c, c+1/2 : c an element coordinate} so faces through elements, degenerate, touching and disjoint "
        "boxes are frequent and every comparison is exact. Family B: arbitrary angles/scales, faces midway between "
        "clusters (>1e-6 apart) of the sorted element coordinates, incl. THIN boxes one or two clusters wide. "
        "Oracle: pure-Python closed-box test on the element coordinates; mask_by_extent (object and data) must "
        "equal the reference mask, None only if the box misses the bounding box or nothing qualifies; "
        "copy_from_extent must carry exactly the selected vertices in order, cells connecting the same "
        "coordinates, data entries of the selected vertices/cells; Grid2D copy must be the index range spanned by "
        "the selected cells (centroids equal to the source's within 1e-9*scale, same rotation/dip/sizes) with "
        "source values on qualifying cells and no-data elsewhere; BlockModel/Octree copies keep geometry and blank "
        "non-qualifying cells; groups = per-child results. NON-TRIVIAL = some query splits its target (some but "
        "not all elements qualify) or has an element exactly on a face of the box. Distinct = program hash."
    )
    assumptions = [
        "grid cell centres are taken from the library's `centroids` (their formula is property C17's subject)",
        "for inverse=True on a Grid2D only 'an index-aligned sub-grid covering the selected cells, other cells "
        "blanked' is demanded (the library keeps the whole grid), 'smallest' is demanded for direct selections",
        "an empty selection may be answered by None or by an object without elements (all values no-data for grids)",
        "Group.mask_by_extent (always None) is not examined; groups are checked through copy_from_extent",
        "vertex data of curves/surfaces are not examined through Data.mask_by_extent (statement is about cells)",
        "drillholes are selected by their collar; at most one depth data set",
        "Data.copy_from_extent called on a data set by itself is not exercised (only through its parent object)",
        "'connects the same coordinates' is compared per cell as a multiset of coordinates (vertex order inside a "
        "cell is not demanded)",
        "a copy that changes the values/geometry of its source is reported (later queries of a case rely on it)",
        "open findings are guarded one at a time: a query that would run into one is skipped unless the program "
        "sets allow_known (10 %), counted in excluded_by_finding",
    ]

    def strategy(self, tier):
        return program_strategy(tier)

    # ------------------------------------------------------------------------------------------
    def run_case(self, program):
        from geoh5py.groups import ContainerGroup
        from geoh5py.workspace import Workspace

        res = CaseResult()
        ctx = Ctx(res, bool(program.get("allow_known")))
        ws = ws2 = None
        try:
            ws = Workspace.create(env.new_path("c13"))
            layout = program.get("layout", "free")
            specs = program["objs"]
            top = sub = out_group = None
            if layout != "free":
                top = Node("g0", ContainerGroup.create(ws, name="g0"))
                if layout.startswith("nested"):
                    sub = Node("g1", ContainerGroup.create(ws, name="g1", parent=top.entity))
            models = []
            split = max(1, (len(specs) + 1) // 2)
            for k, spec in enumerate(specs):
                holder = None
                if top is not None:
                    holder = sub if (sub is not None and k >= split) else top
                try:
                    m = S.build_object(ws, spec, f"o{k}", parent=None if holder is None else holder.entity)
                except Exception as exc:
                    res.label("build_error")
                    res.info = {"build_error": repr(exc)[:300]}
                    return res
                models.append(m)
                if holder is not None:
                    holder.members.append(m)
                res.label(f"class:{m.cls}")
                if m.cls == "Grid2D":
                    if spec["rot"] % 90.0 != 0.0:
                        res.label("grid2d:oblique-rotation")
                    if spec["dip"] != 0.0:
                        res.label("grid2d:dipped")
                    if spec["du"] < 0 or spec["dv"] < 0:
                        res.label("grid2d:negative-size")
                    if spec.get("regeom"):
                        res.label("grid2d:geometry-assigned-after-first-use")
                if spec.get("moved"):
                    res.label("vertices-assigned-after-first-use")
                if m.cells is not None and len({v for cell in m.cells for v in cell}) < len(m.coords):
                    res.label("cells:unreferenced-vertices")
                for _n, kind, _a, _e in m.data:
                    res.label(f"data:{kind}")
            if sub is not None:
                top.members.append(sub)
            if layout == "nested+empty":
                top.members.append(Node("g2", ContainerGroup.create(ws, name="g2", parent=top.entity)))
            res.label(f"layout:{layout}", f"family:{program['family']}")

            for qspec in program.get("ops", []):
                t = qspec["t"]
                if t < 0 and top is not None:
                    target = sub if (t == -2 and sub is not None) else top
                else:
                    target = models[t % len(models)]
                tmodels = target.models() if isinstance(target, Node) else [target]
                coords = [c for m in tmodels for c in m.coords]
                exact = program["family"] == "A" and S.on_quarter_lattice(coords)
                box = qspec["box"]
                if box.get("mode") == "touch" and not (len(tmodels) == 1 and tmodels[0].cls in ("Points", "Curve", "Surface")):
                    # a face through the extreme coordinate is only exact where the coordinates are given, not computed
                    box = {**box, "mode": "free"}
                lo, hi = S.make_box(coords, box, exact)
                q = Query(lo, hi, int(qspec["dims"]), bool(qspec["inv"]))
                infos = [selection(m, q) for m in tmodels]
                res.count("queries")
                res.label("faces:exact" if exact else "faces:midway", f"dims:{q.dims}", f"inverse:{int(q.inv)}",
                          f"box:{box['mode']}" + (":z" if box["mode"] == "thin" and box.get("axis") == 2 else ""))
                if any(lo[k] == hi[k] for k in range(q.dims)):
                    res.label("box:degenerate")
                for m, info in zip(tmodels, infos):
                    n_sel, n_all = sum(info["q"]), len(info["q"])
                    if 0 < n_sel < n_all:
                        res.nontrivial = True
                        res.label("split")
                    if info["boundary"]:
                        res.nontrivial = True
                        res.label("element-on-face")
                    cmin = [min(c[k] for c in m.coords) for k in range(q.dims)]
                    cmax = [max(c[k] for c in m.coords) for k in range(q.dims)]
                    if not info["miss"] and any(lo[k] == cmax[k] or hi[k] == cmin[k] for k in range(q.dims)):
                        res.label("box-touches-bbox-from-outside")
                    if info["miss"]:
                        res.label("box-misses-bbox")
                    elif not any(S.qualify(m.coords, q.lo, q.hi, q.dims, False)):
                        res.label("box-meets-bbox-but-empty")
                    if m.cells is not None and any(info["q"]) and sum(info["sel"]) < sum(info["q"]):
                        res.label("qualifying-vertex-dropped-by-cell-rule")
                    if m.cls == "Grid2D" and info["any"]:
                        cols, rows = grid_ranges(m, info["sel"])
                        if cols[-1] - cols[0] + 1 != len(cols) or rows[-1] - rows[0] + 1 != len(rows):
                            res.label("grid2d-noncontiguous-selection")
                # ---- mask_by_extent
                if not isinstance(target, Node):
                    check_mask(ctx, target, q, infos[0])
                # ---- copy_from_extent
                triggers = [known_trigger(m, q, info) for m, info in zip(tmodels, infos)]
                if False and any(triggers) and (not ctx.allow_known or len({t for t in triggers if t}) > 1):  # guards retired: findings fixed
                    res.count("excluded_by_finding")  # (one open finding at a time when they are allowed)
                    continue
                parent = None
                if top is not None:  # keep copies out of the groups later queries may target
                    if out_group is None:
                        out_group = ContainerGroup.create(ws, name="out")
                    parent = out_group
                if qspec.get("ws2"):
                    if ws2 is None:
                        ws2 = Workspace.create(env.new_path("c13b"))
                    parent = ws2
                    res.label("copy:other-workspace")
                entity = target.entity if isinstance(target, Node) else target.obj
                cls = "Group" if isinstance(target, Node) else target.cls
                try:
                    result = entity.copy_from_extent(q.extent, parent=parent, inverse=q.inv)
                except Exception as exc:
                    trig = next((t for t in triggers if t), None)
                    res.fail(f"C13/copy-raises/copy_from_extent/{cls}/{type(exc).__name__}:{trig or q.tag}",
                             f"{exc!r}; target {getattr(entity, 'name', '?')} box {lo} {hi} inverse={q.inv}")
                    res.count("copy_errors")
                    continue
                res.count("copies")
                res.label("copy:None" if result is None else "copy:object")
                if isinstance(target, Node):
                    check_group_copy(ctx, target, q, result)
                else:
                    check_object_copy(ctx, target, q, result, triggers[0])
                check_source_intact(ctx, tmodels, q.tag)
            res.info = {"objects": [m.cls for m in models], "queries": len(program.get("ops", []))}
        finally:
            env.close_quietly(ws, ws2)
        return res

    def shrink_candidates(self, program):
        objs = program["objs"]
        if program.get("layout") != "free":
            yield {**program, "layout": "free"}
        if len(objs) > 1:
            for k in range(len(objs)):
                yield {**program, "objs": objs[:k] + objs[k + 1:]}
        for k, spec in enumerate(objs):
            if spec.get("data"):
                for j in range(len(spec["data"])):
                    new = dict(spec, data=spec["data"][:j] + spec["data"][j + 1:])
                    yield {**program, "objs": objs[:k] + [new] + objs[k + 1:]}
            for key in ("pts", "cells"):
                if key in spec and len(spec[key]) > 1:
                    if key == "pts" and "cells" not in spec or key == "cells":
                        for j in range(len(spec[key])):
                            new = dict(spec, **{key: spec[key][:j] + spec[key][j + 1:]})
                            yield {**program, "objs": objs[:k] + [new] + objs[k + 1:]}
            if spec.get("regeom"):
                yield {**program, "objs": objs[:k] + [dict(spec, regeom=None)] + objs[k + 1:]}
            for key in ("nu", "nv"):
                if key in spec and spec["cls"] == "Grid2D" and spec[key] > 1:
                    yield {**program, "objs": objs[:k] + [dict(spec, **{key: spec[key] - 1})] + objs[k + 1:]}
        for k, qspec in enumerate(program.get("ops", [])):
            if qspec.get("ws2"):
                ops = list(program["ops"])
                ops[k] = dict(qspec, ws2=False)
                yield {**program, "ops": ops}


CHECK = C13()
