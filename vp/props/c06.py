"""C06 — identifiers are unique within a workspace and stable across copies."""
from ..core import CaseResult, Check
from ..engines import tree


class C06(Check):
    pid = "C06"
    level = "exploration"
    budgets = {"quick": (110, 16), "thorough": (2200, 16)}
    rule = (
        "Tree programs mixing ordinary creation with creation under a caller-supplied uid (fresh / uid of a live "
        "entity of the same kind / of another kind / of a removed entity), copies inside one workspace and into a "
        "second one (uid free or taken there), removals and re-opens. Invariants after every mutation: uids "
        "disjoint across the groups/objects/data/property-group listings, type uids distinct, get_entity(uid) "
        "returns the model's owner, one type per object/group class; a creation with a taken uid must raise and "
        "leave apisnap, listings and raw per-node digests unchanged, otherwise two live entities share a uid; "
        "same-workspace copies get fresh uids for entity, children and property groups; cross-workspace copies keep "
        "the uid when it is free there. Non-trivial = program with a collision attempt or a copy executed while "
        ">=2 non-root entities were alive. Distinct = program hash."
    )

    def cfg(self, tier):
        weights = dict(tree.DEFAULT_CFG["weights"])
        weights.update({"create_uid": 8, "copy": 8, "remove": 4, "values": 0, "flag": 0, "metadata": 0, "file": 0,
                        "rename": 1, "move": 2, "pg_add": 3, "reopen": 3, "type_clash": 2})
        # constructive prefix: an object with two property groups, copied into the second workspace; there the first
        # group of the copy is deleted and the object copied again (one group identifier free, the other in use)
        two_pgs = [{"op": "object", "cls": "Points", "parent": 0, "name": "p", "geom": {"n": 3, "g": [1, 2, 3, 4]}, "deferred": False},
                   {"op": "data", "obj": 0, "kind": "float", "assoc": "VERTEX", "vals": [1, 2, 3], "name": "a", "short": 0, "pg": "pg1"},
                   {"op": "data", "obj": 0, "kind": "int", "assoc": "VERTEX", "vals": [1, 2, 3], "name": "b", "short": 0, "pg": "pg2"},
                   {"op": "copy", "who": 0, "to": 0, "children": True, "clear": False, "ws": 1, "twice": False,
                    "again_after_remove": False, "again_after_pg_delete": True}]
        cfg = {"weights": weights, "max_ops": 22, "prefixes": [[], [], [], two_pgs]}
        if tier == "thorough":
            cfg.update({"max_ops": 40, "object_classes": tree.F.OBJECT_CLASSES,
                        "group_classes": tree.F.GROUP_CLASSES})
        return cfg

    def strategy(self, tier):
        return tree.program_strategy(self.cfg(tier))

    def run_case(self, program):
        res = CaseResult()
        run, stats = tree.run_tree(program, res, {"C06"})
        collide = any(lab.startswith("create_uid:") and not lab.endswith("fresh") for lab in res.labels)
        n_final = sum(len(w.nodes) - 1 for w in run.worlds)
        res.nontrivial = (collide or stats["copies"] > 0) and n_final >= 2 and not res.fails
        return res

    def shrink_candidates(self, program):
        for key, val in (("ws2", False), ("observe", "reopen"), ("version", 2.1)):
            if program.get(key) != val:
                cand = dict(program)
                cand[key] = val
                yield cand


CHECK = C06()
