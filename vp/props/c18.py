"""C18 — drillhole positions follow the survey (desurvey, vertices/cells created by add_data)."""
from __future__ import annotations

import math

import numpy as np

from .. import env
from ..core import CaseResult, Check
from ..engines import geom

DEFAULT_TOL = 1e-2  # Drillhole.default_collocation_distance (documented default of the class)


def _pos_tol(depth: float) -> float:
    return 1e-6 * (1.0 + abs(depth))


class C18(Check):
    pid = "C18"
    level = "exploration"
    budgets = {"quick": (300, 16), "thorough": (2200, 16)}
    rule = (
        "Programs: a plain Drillhole under the workspace root with a collar (lattice or arbitrary floats) and a "
        "survey table of 1-8 rows with non-decreasing depth (first depth 0 or >0, repeated depths, azimuths also "
        "outside [0,360), dips in [-90,90], occasionally one common direction), queried at 0, every station, "
        "mid/quarter points, station +/- 1e-6 and 1e-3, beyond the end and at generated extra depths; then 1-6 "
        "add_data calls ('depth' or 'from-to' arrays of 1-5 entries on a 0.25 lattice plus offsets of "
        "0/4e-4/4e-3/2e-2/6e-2, unsorted, overlapping, with collocation_distance None/1e-4/1e-3/1e-2/5e-2, "
        "float/int/text values) with optional re-open and re-query. Oracle: a pure-Python desurvey built from "
        "`hole.surveys` as read back (collar at 0, mean of the two station directions inside a leg, last direction "
        "beyond the end), 1-Lipschitz continuity between consecutive query depths, finite and bit-identical "
        "repeated outputs; after every addition and re-open: len(DEPTH)==n_vertices, len(FROM)==len(TO)==n_cells, "
        "every vertex with a depth equals desurvey(DEPTH), every cell joins desurvey(FROM)/desurvey(TO), every value "
        "added so far is carried by a vertex/cell whose depth/interval is within the call's tolerance of where it "
        "was added. Tolerance 1e-6*(1+depth). Non-trivial = no failing clause, >=2 distinct station directions and "
        ">=2 successful additions of which a later one reaches above the deepest point added before (forces a "
        "re-sort / overlap) or is collocated with earlier data. Distinct = distinct program hash."
    )
    assumptions = [
        "direction convention: azimuth in degrees clockwise from north, dip in degrees from horizontal, negative "
        "down, u = (sin az cos dip, cos az cos dip, sin dip). Sources: drillhole.deviation_x/y docstrings (azimuth "
        "'clockwise from North'), user guide b_core_entities (dips -89..-75 for a hole going down) and the default "
        "survey [0, 0, -90] of a hole without surveys. The deviation_z docstring says 'positive down', which "
        "contradicts both; verified on the vertical hole (dip -90 => z decreases by the depth)",
        "between the collar and a first station deeper than 0 the path follows the first station's direction (the "
        "only direction known there)",
        "'continues the last direction beyond the final survey' is accepted as either the mean direction of the "
        "last leg (what the design document fixes) or the direction of the last station; when the last leg has "
        "zero length also the direction of the station before it; all depths beyond the end must use the same one",
        "the oracle reads `hole.surveys` back (float32 storage of the table is the library's documented choice)",
        "depths inside one add_data call are mutually farther apart than any tolerance used (two values for one "
        "collocated depth in a single call are ambiguous input); from < to for every interval",
        "an add_data call that raises on such input is reported as a violation of 'each added value stays attached' "
        "(signature C18/add-raises/...); other library errors would be harness-visible op_error labels",
        "plain (non-concatenated) Drillhole objects on tmpfs files; h5repack stubbed",
    ]

    def strategy(self, tier):
        return geom.drillhole_program_strategy(6)

    # ------------------------------------------------------------------ interpreter
    def run_case(self, program) -> CaseResult:
        from geoh5py.objects import Drillhole
        from geoh5py.workspace import Workspace

        res = CaseResult()
        allow = True  # guards retired: the findings they protected are fixed (known_findings.json)
        if allow:
            res.label("allow_known")
        collar = [float(v) for v in program["collar"]]
        table = [[float(v) for v in row] for row in program["surveys"]]
        self._table_labels(table, res)
        ws = None
        file_path = env.new_path()
        try:
            ws = Workspace.create(file_path)
            try:
                hole = Drillhole.create(ws, collar=collar, surveys=np.asarray(table, dtype=float))
                uid = hole.uid
                read_back = [[float(v) for v in row] for row in np.asarray(hole.surveys).reshape((-1, 3))]
            except Exception as exc:
                res.fail(f"C18/create-raises/create/Drillhole/{type(exc).__name__}",
                         f"Drillhole.create(collar, surveys) raised {exc!r} for table {table}")
                return res
            if len(read_back) != len(table) or any(
                    abs(a - b) > 1e-5 * (1 + abs(b)) for ra, rb in zip(read_back, table) for a, b in zip(ra, rb)):
                res.fail("C18/surveys-readback/create/Drillhole/differs-beyond-float32",
                         f"surveys given {table} read back {read_back}")
                return res
            path = geom.RefPath(collar, read_back)
            tclass = self._table_class(path)
            queries = geom.standard_queries(path, program.get("queries", ()))
            self._check_queries(hole, path, queries, tclass, "query", res)
            path_ok = not res.fails  # later re-queries only tell something new if the path was right at first

            added = []  # successful additions: dicts(name, op, kind, tol, items)
            stats = {"adds": 0, "overlap": False, "deepest": None, "reopens": 0}
            last = "create"
            pending = []  # logs collected for one add_data call
            for op in program["ops"]:
                kind = op["op"]
                if kind in ("set_collar", "set_surveys"):
                    try:
                        if kind == "set_collar":
                            collar = [float(v) for v in op["value"]]
                            hole.collar = collar
                        else:
                            table = [[float(v) for v in row] for row in op["table"]]
                            hole.surveys = np.asarray(table, dtype=float)
                            self._table_labels(table, res)
                        read_back = [[float(v) for v in row] for row in np.asarray(hole.surveys).reshape((-1, 3))]
                    except Exception as exc:
                        res.count("op_error")
                        res.label(f"op_error:{kind}:{type(exc).__name__}")
                        break
                    res.label(f"op:{kind}")
                    path = geom.RefPath(collar, read_back)
                    tclass = self._table_class(path)
                    queries = geom.standard_queries(path, program.get("queries", ()))
                    last = kind
                    if added:  # generated programs move the hole only before data exist
                        res.label("moved-after-additions")
                        break
                elif kind == "query":
                    if path_ok:
                        self._check_queries(hole, path, queries, tclass, f"requery-after-{last}", res)
                    res.count("query_ops")
                elif kind == "reopen":
                    try:
                        ws.close()
                        ws = Workspace(file_path)
                        found = ws.get_entity(uid)
                        hole = found[0] if found else None
                    except Exception as exc:
                        res.fail(f"C18/reopen-raises/reopen/Drillhole/{type(exc).__name__}", repr(exc))
                        return res
                    if hole is None:
                        res.fail("C18/reopen-raises/reopen/Drillhole/hole-missing", "hole not found after re-open")
                        return res
                    stats["reopens"] += 1
                    res.label("reopen")
                    last = "reopen"
                    if op.get("blind"):
                        res.label("reopen:nothing-read-before-next-log")
                        continue
                    self._check_state(hole, path, added, last, res)
                    if path_ok:
                        self._check_queries(hole, path, queries[: 12], tclass, "requery-after-reopen", res)
                else:
                    if op.get("batch_with_next") or pending:
                        pending.append(op)
                        if op.get("batch_with_next"):
                            continue
                        batch, pending = pending, []
                        done = self._add_batch(hole, batch, added, stats, res)
                    else:
                        done = self._add(hole, op, added, stats, allow, res)
                    if done:
                        last = kind
                        self._check_state(hole, path, added, last, res)
            if pending and self._add_batch(hole, pending, added, stats, res):
                self._check_state(hole, path, added, "add_batch", res)
            res.nontrivial = (not res.fails and path.distinct_directions() >= 2 and stats["adds"] >= 2
                              and stats["overlap"])
            res.info = {"rows": len(table), "adds": stats["adds"], "reopens": stats["reopens"],
                        "n_vertices": self._safe(lambda: hole.n_vertices), "table_class": tclass}
        finally:
            env.close_quietly(ws)
        if res.fails:
            seen, uniq = set(), []
            for f in res.fails:
                if f.sig not in seen:
                    seen.add(f.sig)
                    uniq.append(f)
            res.fails = uniq
        return res

    @staticmethod
    def _safe(fn):
        try:
            return fn()
        except Exception:
            return None

    # ------------------------------------------------------------------ classification helpers
    @staticmethod
    def _table_labels(table, res):
        res.label(f"rows:{len(table) if len(table) < 4 else '4+'}")
        if len(table) == 1:
            res.label("table:single-row")
        if table[0][0] > 0:
            res.label("table:first-depth>0")
        if any(a[0] == b[0] for a, b in zip(table[:-1], table[1:])):
            res.label("table:repeated-depth")
        if len(table) > 1 and table[-1][0] == table[-2][0]:
            res.label("table:last-leg-zero-length")
        if any(not 0 <= r[1] < 360 for r in table):
            res.label("table:azimuth-outside-[0,360)")
        if any(r[2] > 0 for r in table):
            res.label("table:positive-dip")
        if any(abs(r[2]) == 90 for r in table):
            res.label("table:vertical-station")
        if len(table) > 1 and len({(r[1], r[2]) for r in table}) == 1:
            res.label("table:one-direction")

    @staticmethod
    def _table_class(path):
        if len(path.depth) == 2:
            return "single-row"
        stations = path.depth[1:]
        if any(a == b for a, b in zip(stations[:-1], stations[1:])):
            return "repeated-depth"
        return "first-depth>0" if stations[0] > 0 else "plain"

    # ------------------------------------------------------------------ desurvey clauses
    def _check_queries(self, hole, path, queries, tclass, after, res):
        depths = np.asarray(queries, dtype=float)
        try:
            first = np.array(hole.desurvey(depths.copy()), dtype=float)
            second = np.array(hole.desurvey([float(v) for v in queries]), dtype=float)
        except Exception as exc:
            res.fail(f"C18/desurvey-raises/{after}/{tclass}/{type(exc).__name__}",
                     f"desurvey raised {exc!r} for table {list(zip(path.depth, path.dirs))[:3]}...")
            return
        res.count("positions_checked", len(queries))
        if first.shape != (len(queries), 3):
            res.fail(f"C18/desurvey-shape/{after}/{tclass}/shape",
                     f"{first.shape} for {len(queries)} depths")
            return
        if not np.all(np.isfinite(first)):
            bad = [queries[i] for i in np.where(~np.isfinite(first).all(axis=1))[0][:5]]
            res.fail(f"C18/non-finite/{after}/{tclass}/nan-or-inf", f"non-finite positions at depths {bad}")
            return
        if first.tobytes() != second.tobytes():
            res.fail(f"C18/not-repeatable/{after}/{tclass}/two-calls-differ",
                     f"max difference {float(np.nanmax(np.abs(first - second)))}")
        # (1) collar at depth 0
        if queries[0] == 0.0 and float(np.max(np.abs(first[0] - path.collar))) > _pos_tol(0):
            res.fail(f"C18/collar/{after}/{tclass}/depth-zero-is-not-the-collar",
                     f"desurvey(0)={first[0].tolist()} collar={path.collar.tolist()}")
        # (2) 1-Lipschitz between consecutive depths (independent of the reference path)
        for n in range(len(queries) - 1):
            gap = queries[n + 1] - queries[n]
            moved = float(np.linalg.norm(first[n + 1] - first[n]))
            if moved > gap * (1 + 1e-9) + 1e-9 * (1 + queries[n + 1]):
                res.fail(f"C18/lipschitz/{after}/{tclass}/{path.region(queries[n + 1])}",
                         f"|p({queries[n + 1]})-p({queries[n]})|={moved} > depth difference {gap}")
                break
        # (3,4) position on the surveyed path
        chosen = None
        for n, d in enumerate(queries):
            region = path.region(d)
            cands = path.positions(d)
            errs = [float(np.max(np.abs(first[n] - p))) for p in cands]
            ok = [i for i, e in enumerate(errs) if e <= _pos_tol(d)]
            if region == "beyond" and ok:
                usable = ok if chosen is None else [i for i in ok if i in chosen]
                if not usable:
                    res.fail(f"C18/path-position/{after}/{tclass}/beyond:direction-changes",
                             f"depth {d}: matches candidate(s) {ok} but earlier depths matched {chosen}")
                    break
                chosen = usable
                continue
            if not ok:
                res.fail(f"C18/path-position/{after}/{tclass}/{region}",
                         f"depth {d}: library {first[n].tolist()} reference {cands[0].tolist()} "
                         f"(error {min(errs):.3g} > {_pos_tol(d):.3g}); stations {path.depth}")
                break

    # ------------------------------------------------------------------ additions
    @staticmethod
    def _values_for(kind, items):
        raw = [it[-1] for it in items]
        if kind == "float":
            return np.asarray([v / 4.0 for v in raw], dtype=float), [v / 4.0 for v in raw]
        if kind == "int":
            return np.asarray(raw, dtype="int32"), [int(v) for v in raw]
        return np.asarray([f"t{v}" for v in raw], dtype=str), [f"t{v}" for v in raw]

    def _add(self, hole, op, added, stats, allow, res) -> bool:
        kind_op, kind = op["op"], op["kind"]
        tol = op["tol"]
        tol_eff = DEFAULT_TOL if tol is None else float(tol)
        items = [list(it) for it in op["items"]]
        res.label(f"op:{kind_op}", f"tol:{tol}")

        # ---- state of the hole before the call (used by the guards and by the labels only)
        depth_now = self._safe(lambda: None if hole.depths is None else np.asarray(hole.depths.values, dtype=float))
        from_now = self._safe(lambda: None if hole.from_ is None else np.asarray(hole.from_.values, dtype=float))
        to_now = self._safe(lambda: None if hole.to_ is None else np.asarray(hole.to_.values, dtype=float))
        text_vertex_data = any(a["op"] == "add_depth" and a["kind"] == "text" for a in added)
        collocated = False
        permutes = False
        if kind_op == "add_depth":
            new = [it[0] for it in items]
            if depth_now is not None:
                finite = depth_now[np.isfinite(depth_now)]
                hits = [d for d in new if len(finite) and float(np.min(np.abs(finite - d))) < tol_eff]
                collocated = bool(hits)
                merged = list(depth_now) + [d for d in new if d not in hits]
            else:
                n_prior = self._safe(lambda: hole.n_vertices) or 0
                merged = [math.nan] * n_prior + new
            order = sorted(range(len(merged)), key=lambda i: (math.isnan(merged[i]), merged[i]))
            permutes = order != list(range(len(merged)))
        else:
            if from_now is not None and to_now is not None and len(from_now):
                for f, t, _ in items:
                    if float(np.min(np.hypot(from_now - f, to_now - t))) < tol_eff:
                        collocated = True
        if collocated:
            res.label(f"collocated:{kind_op}")
        if permutes:
            res.label("sort-needed")

        # ---- guards of the text findings (active unless allow_known)
        if not allow:
            if kind_op == "add_depth" and text_vertex_data and permutes:
                res.count("excluded_by_finding")  # a sort would leave earlier text vertex data behind
                res.label("guard:skip-sort-with-text-vertex-data")
                return False
            if kind_op == "add_depth" and kind == "text" and (permutes or (depth_now is not None and collocated)):
                kind = "float"  # text depth data: raises when collocated, left unsorted when a sort follows
                res.count("excluded_by_finding")
                res.label("guard:text-depth->float")
            elif kind_op == "add_interval" and kind == "text" and collocated:
                kind = "float"  # text values matched to an existing cell are cut to one character
                res.count("excluded_by_finding")
                res.label("guard:text-interval->float")
        res.label(f"kind:{kind}")

        values, expected = self._values_for(kind, items)
        spec = {"values": values}
        if kind == "int":
            spec["type"] = "integer"
        elif kind == "text":
            spec["type"] = "text"
        if kind_op == "add_depth":
            spec["depth"] = np.asarray([it[0] for it in items], dtype=float)
        else:
            spec["from-to"] = np.asarray([[it[0], it[1]] for it in items], dtype=float)
        kwargs = {} if tol is None else {"collocation_distance": float(tol)}
        try:
            hole.add_data({op["name"]: spec}, **kwargs)
        except Exception as exc:
            cond = ("collocated" if collocated else "not-collocated") + (":existing-depths" if depth_now is not None
                                                                         else "")
            res.fail(f"C18/add-raises/{kind_op}/{kind}/{type(exc).__name__}:{cond}",
                     f"add_data({op['name']}, {kind_op}, items={items}, tol={tol}) raised {exc!r}")
            res.count("add_errors")
            return True  # the state after the failed call is still checked
        stats["adds"] += 1
        res.count("additions")
        reach_top = min(it[0] for it in items)
        reach_bottom = max(it[-2] for it in items)
        if stats["deepest"] is not None and (reach_top < stats["deepest"] or collocated):
            stats["overlap"] = True
            res.label("later-addition-above-earlier")
        stats["deepest"] = reach_bottom if stats["deepest"] is None else max(stats["deepest"], reach_bottom)
        added.append({"name": op["name"], "op": kind_op, "kind": kind, "tol": tol_eff, "items": items,
                      "expected": expected})
        kinds = {a["op"] for a in added}
        if len(kinds) == 2:
            res.label("mixed-depth-and-interval")
        return True

    def _add_batch(self, hole, ops, added, stats, res) -> bool:
        """Several logs in ONE add_data call (dictionary of data sets): each is matched against the depths / intervals
        the earlier ones of the same call created, exactly as if they had been added one call after the other."""
        tol = ops[0]["tol"]
        tol_eff = DEFAULT_TOL if tol is None else float(tol)
        specs, records = {}, []
        for op in ops:
            items = [list(it) for it in op["items"]]
            values, expected = self._values_for(op["kind"], items)
            spec = {"values": values}
            if op["kind"] == "int":
                spec["type"] = "integer"
            elif op["kind"] == "text":
                spec["type"] = "text"
            if op["op"] == "add_depth":
                spec["depth"] = np.asarray([it[0] for it in items], dtype=float)
            else:
                spec["from-to"] = np.asarray([[it[0], it[1]] for it in items], dtype=float)
            specs[op["name"]] = spec
            records.append({"name": op["name"], "op": op["op"], "kind": op["kind"], "tol": tol_eff, "items": items,
                            "expected": expected})
        res.label(f"op:batch-of-{len(ops)}", "batch:" + "+".join(sorted({op["op"] for op in ops})))
        unsorted_first = any(op["op"] == "add_depth" and [it[0] for it in op["items"]] != sorted(it[0] for it in op["items"])
                             for op in ops[:-1])
        if unsorted_first:
            res.label("batch:earlier-log-unsorted")
        kwargs = {} if tol is None else {"collocation_distance": float(tol)}
        try:
            hole.add_data(specs, **kwargs)
        except Exception as exc:
            kinds = "+".join(op["kind"] for op in ops)
            res.fail(f"C18/add-raises/batch/{kinds}/{type(exc).__name__}",
                     f"add_data of {[(op['name'], op['op'], op['items']) for op in ops]}, tol={tol} raised {exc!r}")
            res.count("add_errors")
            return True
        for rec in records:
            stats["adds"] += 1
            res.count("additions")
            reach_top = min(it[0] for it in rec["items"])
            reach_bottom = max(it[-2] for it in rec["items"])
            if stats["deepest"] is not None and reach_top < stats["deepest"]:
                stats["overlap"] = True
                res.label("later-addition-above-earlier")
            stats["deepest"] = reach_bottom if stats["deepest"] is None else max(stats["deepest"], reach_bottom)
            added.append(rec)
        if len({a["op"] for a in added}) == 2:
            res.label("mixed-depth-and-interval")
        return True

    # ------------------------------------------------------------------ state clauses after additions
    def _check_state(self, hole, path, added, after, res):
        """All state clauses; a clause (or a data set) that failed once is not re-reported by later checks of the
        same case, so that the signature names the operation after which the state first went wrong."""
        reported = getattr(res, "_c18_reported", None)
        if reported is None:
            reported = res._c18_reported = set()
        try:
            verts = hole.vertices
            verts = None if verts is None else np.array(verts, dtype=float).reshape((-1, 3))
            cells = hole.cells
            cells = None if cells is None else np.array(cells, dtype=int).reshape((-1, 2))
            depth_obj, from_obj, to_obj = hole.depths, hole.from_, hole.to_
            depth = None if depth_obj is None else np.array(depth_obj.values, dtype=float).ravel()
            v_from = None if from_obj is None else np.array(from_obj.values, dtype=float).ravel()
            v_to = None if to_obj is None else np.array(to_obj.values, dtype=float).ravel()
        except Exception as exc:
            res.fail(f"C18/state-unreadable/after-{after}/Drillhole/{type(exc).__name__}", repr(exc))
            return
        n_vert = 0 if verts is None else len(verts)
        n_cell = 0 if cells is None else len(cells)
        res.count("state_checks")

        # ---- lengths
        if depth is not None and len(depth) != n_vert:
            res.fail(f"C18/length-mismatch/after-{after}/DEPTH/vs-n_vertices", f"len(DEPTH)={len(depth)} n_vertices={n_vert}")
            depth = None
        if (v_from is None) != (v_to is None) or (v_from is not None and (len(v_from) != n_cell or len(v_to) != n_cell)):
            res.fail(f"C18/length-mismatch/after-{after}/FROM-TO/vs-n_cells",
                     f"FROM={None if v_from is None else len(v_from)} TO={None if v_to is None else len(v_to)} "
                     f"n_cells={n_cell}")
            v_from = v_to = None
        if verts is not None and not np.all(np.isfinite(verts)):
            res.fail(f"C18/non-finite/after-{after}/vertices/nan-or-inf", "vertices contain non-finite coordinates")
            return
        if cells is not None and n_cell and (cells.min() < 0 or cells.max() >= n_vert):
            res.fail(f"C18/cell-index/after-{after}/cells/out-of-range", f"cells {cells.tolist()} n_vertices={n_vert}")
            return

        # ---- every vertex with a depth sits at the position of that depth
        if depth is not None and "vertex-position" not in reported:
            for v in range(n_vert):
                d = float(depth[v])
                if math.isnan(d):
                    continue
                if d < 0 or path.distance(d, verts[v]) > _pos_tol(d):
                    res.fail(f"C18/vertex-position/after-{after}/DEPTH/{path.region(d) if d >= 0 else 'negative'}",
                             f"vertex {v}: DEPTH={d} at {verts[v].tolist()} reference "
                             f"{path.positions(max(d, 0.0))[0].tolist()}; DEPTH={depth.tolist()}")
                    reported.add("vertex-position")
                    break
                res.count("vertices_checked")
        # ---- every cell joins the positions of its from and to depths
        if v_from is not None and cells is not None and "cell-position" not in reported:
            for c in range(n_cell):
                bad = None
                for col, arr, nm in ((0, v_from, "FROM"), (1, v_to, "TO")):
                    d = float(arr[c])
                    if math.isnan(d) or d < 0 or path.distance(d, verts[cells[c, col]]) > _pos_tol(d):
                        bad = (nm, d, cells[c, col])
                        break
                if bad:
                    res.fail(f"C18/cell-position/after-{after}/{bad[0]}/cell-end-not-at-its-depth",
                             f"cell {c}={cells[c].tolist()}: {bad[0]}={bad[1]} but vertex {bad[2]} at "
                             f"{verts[bad[2]].tolist()}; FROM={v_from.tolist()} TO={v_to.tolist()}")
                    reported.add("cell-position")
                    break
                res.count("cells_checked")

        # ---- every value added so far is still attached to its depth / interval
        for entry in added:
            if entry["name"] in reported:
                continue
            try:
                found = hole.get_data(entry["name"])
                vals = found[0].values if found else None
            except Exception as exc:
                res.fail(f"C18/value-unreadable/{entry['op']}/{entry['kind']}/after-{after}:{type(exc).__name__}", repr(exc))
                continue
            if vals is None:
                res.fail(f"C18/value-detached/{entry['op']}/{entry['kind']}/after-{after}:data-missing",
                         f"data {entry['name']} not found or without values")
                reported.add(entry["name"])
                continue
            vals = [vals] if isinstance(vals, str) else list(np.asarray(vals).ravel())
            for item, want in zip(entry["items"], entry["expected"]):
                if entry["op"] == "add_depth":
                    if depth is None:
                        break
                    d = item[0]
                    near = [v for v in range(n_vert)
                            if not math.isnan(depth[v]) and abs(depth[v] - d) < entry["tol"] + _pos_tol(d)]
                    what = f"depth {d}"
                else:
                    if v_from is None:
                        break
                    f, t = item[0], item[1]
                    near = [c for c in range(n_cell)
                            if math.hypot(v_from[c] - f, v_to[c] - t) < entry["tol"] + _pos_tol(t)]
                    what = f"interval [{f}, {t}]"
                carried = [vals[i] for i in near if i < len(vals)]
                if any(self._same(val, want, entry["kind"]) for val in carried):
                    res.count("values_checked")
                    continue
                if not near:
                    cond = "no-support-within-tolerance"
                elif any(self._same(val, want, entry["kind"]) for val in vals):
                    cond = "value-at-another-support"
                elif entry["kind"] == "text" and any(str(val) and str(want).startswith(str(val)) for val in carried):
                    cond = "text-truncated"
                else:
                    cond = "value-gone"
                res.fail(f"C18/value-detached/{entry['op']}/{entry['kind']}/after-{after}:{cond}",
                         f"{entry['name']}: value {want!r} added at {what} (tol {entry['tol']}); supports within "
                         f"tolerance {near} carry {carried!r}; all values {vals!r}; "
                         f"DEPTH={None if depth is None else depth.tolist()}")
                reported.add(entry["name"])
                break

    @staticmethod
    def _same(val, want, kind):
        try:
            if kind == "text":
                return str(val) == want
            return float(val) == float(want)
        except (TypeError, ValueError):
            return False

    # ------------------------------------------------------------------ shrinking
    def shrink_candidates(self, program):
        table = program["surveys"]
        if len(table) > 1:
            for i in range(len(table)):
                cand = dict(program)
                cand["surveys"] = table[:i] + table[i + 1:]
                yield cand
        if program.get("queries"):
            cand = dict(program)
            cand["queries"] = []
            yield cand
        if any(program["collar"]):
            cand = dict(program)
            cand["collar"] = [0.0, 0.0, 0.0]
            yield cand
        for pos, op in enumerate(program["ops"]):
            if len(op.get("items", [])) > 1:
                for i in range(len(op["items"])):
                    cand = dict(program)
                    cand["ops"] = list(program["ops"])
                    cand["ops"][pos] = dict(op, items=op["items"][:i] + op["items"][i + 1:])
                    yield cand
            if op.get("tol") is not None:
                cand = dict(program)
                cand["ops"] = list(program["ops"])
                cand["ops"][pos] = dict(op, tol=None)
                yield cand
        for i, row in enumerate(table):
            for col, simple in ((1, 0.0), (2, -90.0)):
                if row[col] != simple:
                    cand = dict(program)
                    cand["surveys"] = [list(r) for r in table]
                    cand["surveys"][i][col] = simple
                    yield cand


CHECK = C18()
