"""C08 — values survive storage unchanged; gaps use the format's no-data codes."""
import uuid

import h5py
import numpy as np

from .. import env
from ..core import CaseResult, Check
from ..engines import codec as K


def _canon_num(values):
    out = []
    for v in np.asarray(values).ravel().tolist():
        if isinstance(v, float) and v != v:
            out.append("NaN")
        elif isinstance(v, bool):
            out.append(bool(v))
        else:
            out.append(v)
    return out


def _same(got, want, free=()):
    if len(got) != len(want):
        return False
    for i, (g, w) in enumerate(zip(got, want)):
        if i in free:
            continue
        if w == "NaN" or g == "NaN":
            if g != w:
                return False
        elif isinstance(w, bool) or isinstance(g, bool):
            if bool(g) != bool(w) or (not isinstance(g, (bool, int))):
                return False
        elif float(g) != float(w):
            return False
    return True


class C08(Check):
    pid = "C08"
    level = "exploration"
    budgets = {"quick": (350, 16), "thorough": (7000, 16)}
    rule = (
        "Generated (target kind, NumPy dtype, boundary-pool tokens, length vs geometry, add/set, explicit/inferred "
        "type) numeric cases; text cases (Unicode arrays, single strings, byte strings); metadata dictionaries with "
        "uuids; comment lists; byte blobs 0-4 KiB; value maps. Oracle: differential against a reference codec "
        "written from the format documentation (vp/engines/codec.py): if the library accepts, the value read back "
        "live, the value read back from a fresh opening and the raw stored dtype / no-data positions (plain h5py) "
        "must equal the codec's expectation (NaN<->float sentinel 1.17549435e-38, integer gaps -2147483648, "
        "booleans int8 0/1, key 0 'Unknown'); if the codec says the value is not representable (non-integral, "
        "outside int32, not 0/1, longer than the geometry, unsupported dtype) the library must raise - acceptance "
        "with a different read-back is 'silently altered'. Documented exception (float equal to the sentinel) and "
        "under-specified classes (bool->float, |int|>2^53->float, strings with NUL, empty blob) are counted, not "
        "judged. Non-trivial = array containing a boundary-pool value, a missing value, a non-ASCII character, or "
        "a rejected-by-codec value. Distinct = program hash."
    )
    assumptions = ["float16/32 inputs are compared after exact widening to float64",
                   "byte strings are compared by their UTF-8 decoded content",
                   "value maps: only 'declared keys keep their labels, key 0 reads Unknown' is demanded"]

    def strategy(self, tier):
        return K.case_strategy()

    # ------------------------------------------------------------------
    def run_case(self, program):
        from geoh5py.workspace import Workspace

        res = CaseResult()
        path = env.new_path("c08")
        ws = Workspace.create(path)
        self._ws = ws
        try:
            family = program["family"]
            res.label("family:" + family)
            handler = getattr(self, "case_" + family)
            handler(program, res, path)
        finally:
            env.close_quietly(self._ws)
        return res

    def reopen(self, path, mode="r"):
        from geoh5py.workspace import Workspace

        self._ws.close()
        self._ws = Workspace(path, mode=mode)
        return self._ws

    def host(self, assoc, count):
        from geoh5py.objects import Curve, Points

        ws = self._ws
        if assoc == "CELL":
            verts = np.c_[np.arange(count + 1.0), np.zeros(count + 1), np.zeros(count + 1)]
            return Curve.create(ws, vertices=verts, name="host")
        verts = np.c_[np.arange(float(count)), np.zeros(count), np.zeros(count)]
        return Points.create(ws, vertices=verts, name="host")

    # ------------------------------------------------------------------ numeric
    def case_numeric(self, p, res, path):
        kind, dtype, count = p["kind"], p["dtype"], p["count"]
        arr = K.token_array(dtype, p["tokens"])
        explicit = p["explicit"] or kind == "ref"
        if not explicit:
            kind = {"f": "float", "i": "int", "u": "int", "b": "bool"}[arr.dtype.kind]
        given = arr.copy()
        exp = K.expected(kind, given, count)
        res.label(f"kind:{kind}", f"dtype:{arr.dtype.kind}", "verdict:" + exp[0])
        if exp[0] == "unspecified":
            res.count("unspecified")
            return
        if (kind in ("int", "ref") and exp[0] == "reject" and exp[1] == "outside the 32-bit range"
                and not p.get("allow_known") and self.guard_int_range):
            res.count("excluded_by_finding")
            return
        lenient = False
        shape2d = p.get("shape2d")
        if shape2d == "block" and 2 * len(arr) > count and count > 1:
            # twice as many entries as given, in an (n, 2) block: more than the geometry has
            arr = np.stack([arr, arr], axis=1)
            exp = ("reject", "more entries than the geometry (2-D block)")
            res.label("shape:block")
        elif shape2d in ("col", "row") and len(arr) > 1:
            # a column / row vector holds the same entries: if it is taken at all, it is taken as the flat array
            arr = arr.reshape((-1, 1) if shape2d == "col" else (1, -1))
            lenient = True
            res.label("shape:" + shape2d)
        host = self.host(p["assoc"], count)
        spec = {"values": arr, "association": p["assoc"]}
        if explicit:
            spec["type"] = {"float": "float", "int": "integer", "bool": "boolean", "ref": "referenced"}[kind]
            if kind == "ref":
                spec["value_map"] = {1: "A", 2: "B"}
        raised = None
        data = None
        try:
            if p["via"] == "add":
                data = host.add_data({"d": spec})
            else:
                safe = dict(spec)
                safe["values"] = np.zeros(count, dtype={"float": float, "int": "int32", "ref": "int32", "bool": bool}[kind])
                data = host.add_data({"d": safe})
                data.values = arr
        except Exception as exc:
            raised = f"{type(exc).__name__}: {exc}"[:200]
        sig_tail = f"{p['via']}/{kind}/{arr.dtype.kind}{arr.dtype.itemsize * 8}"
        boundary = any(isinstance(t, str) for t in p["tokens"]) or len(given) != count
        if raised is not None:
            if exp[0] == "accept" and lenient:
                res.label("2d-vector-refused")
            elif exp[0] == "accept":
                res.fail(f"C08/valid-value-rejected/{sig_tail}", f"{given.tolist()!r:.200} ({arr.dtype}) into {kind} data of {count}: {raised}")
            else:
                res.nontrivial = True
                res.label("rejected-as-required:" + exp[1])
            return
        live = _canon_num(data.values)
        if exp[0] == "reject":
            res.fail(f"C08/unrepresentable-accepted/{sig_tail}/{exp[1].replace(' ', '-')}",
                     f"{given.tolist()!r:.200} ({arr.dtype}) into {kind} data of {count} entries was accepted; reads back {live!r:.200}")
            return
        _, want, raw_kind, raw_want, exception = exp
        free = set()
        if exception:
            # documented exception: a float equal to the sentinel may come back as itself or as NaN
            res.count("documented_sentinel_exception")
            free = {i for i, v in enumerate(given.tolist()) if isinstance(v, float) and K.is_ndv_float(v)}
        if not _same(live, want, free):
            res.fail(f"C08/live-readback-differs/{sig_tail}", f"written {given.tolist()!r:.200} expected {want!r:.200} got {live!r:.200}")
            return
        if data.values.dtype.kind != {"float": "f", "int": "i", "ref": "i", "bool": "b"}[kind]:
            res.fail(f"C08/live-dtype/{sig_tail}", f"values dtype {data.values.dtype}")
            return
        if arr.ndim == 1 and not np.array_equal(arr, given, equal_nan=True):
            res.count("input_array_modified_in_place")
        uid = data.uid
        del data, host
        ws = self.reopen(path)
        fresh = ws.get_entity(uid)[0]
        got = _canon_num(fresh.values)
        if not _same(got, want, free):
            res.fail(f"C08/reopen-readback-differs/{sig_tail}", f"written {given.tolist()!r:.200} expected {want!r:.200} got {got!r:.200}")
            return
        # raw view
        with h5py.File(path, "r") as h5:
            ds = h5[list(h5)[0]]["Data"]["{" + str(uid) + "}"]["Data"]
            raw = ds[()]
        raw_list = np.asarray(raw).ravel().tolist()
        if kind == "float":
            if raw.dtype.kind != "f":
                res.fail(f"C08/raw-dtype/{sig_tail}", f"float data stored as {raw.dtype}")
                return
            for r, w in zip(raw_list, raw_want):
                if w == "NDV":
                    if not K.is_ndv_float(r):
                        res.fail(f"C08/raw-float-sentinel/{sig_tail}", f"missing value stored as {r!r}, not the float no-data code")
                        return
                elif float(r) != float(w):
                    res.fail(f"C08/raw-value/{sig_tail}", f"stored {r!r} expected {w!r}")
                    return
        elif kind in ("int", "ref"):
            if raw.dtype != np.int32 and not (kind == "ref" and raw.dtype == np.uint32):
                res.fail(f"C08/raw-dtype/{sig_tail}", f"{kind} data stored as {raw.dtype}")
                return
            if [int(r) for r in raw_list] != [int(w) for w in raw_want]:
                res.fail(f"C08/raw-value/{sig_tail}", f"stored {raw_list!r:.200} expected {raw_want!r:.200}")
                return
        else:
            if raw.dtype != np.int8 or any(r not in (0, 1) for r in raw_list) or [int(r) for r in raw_list] != raw_want:
                res.fail(f"C08/raw-bool/{sig_tail}", f"stored {raw.dtype} {raw_list!r:.200} expected int8 {raw_want!r:.200}")
                return
        res.nontrivial = boundary or "NaN" in want or INT_NDV_IN(want)

    guard_int_range = False

    # ------------------------------------------------------------------ text
    def case_text(self, p, res, path):
        from geoh5py.objects import Points

        ws = self._ws
        form, count = p["form"], p["count"]
        vals = list(p["vals"])
        host = Points.create(ws, vertices=np.c_[np.arange(float(count)), np.zeros(count), np.zeros(count)], name="host")
        res.label("text:" + form)
        if form in ("str", "bytes"):
            assoc = "OBJECT"
            value = vals[0] if form == "str" else vals[0].encode("utf-8")
            want = vals[0]
            if "\x00" in want:
                res.label("class:nul")
        else:
            assoc = "VERTEX"
            if form == "array":
                value = np.asarray(vals, dtype=str)
                want = value.tolist()  # what the array holds (NumPy strips trailing NULs itself)
            else:
                value = np.asarray([v.encode("utf-8") for v in vals], dtype="S")
                want = [b.decode("utf-8", "replace") for b in value.tolist()]
        nul = any("\x00" in w for w in ([want] if isinstance(want, str) else want))
        try:
            if p["via"] == "add":
                data = host.add_data({"t": {"values": value, "association": assoc, "type": "text"}})
            else:
                first = "seed" if assoc == "OBJECT" else np.asarray(["seed"] * count)
                data = host.add_data({"t": {"values": first, "association": assoc, "type": "text"}})
                data.values = value
        except Exception as exc:
            if nul or (isinstance(want, str) and want == ""):
                res.label("class:nul-or-empty-rejected")
                return
            res.fail(f"C08/valid-text-rejected/{p['via']}/{form}", f"{want!r:.200}: {type(exc).__name__}: {exc}"[:300])
            return

        def norm(v):
            if isinstance(v, bytes):
                return v.decode("utf-8", "replace")
            if isinstance(v, np.ndarray):
                return [x.decode("utf-8", "replace") if isinstance(x, bytes) else x for x in v.tolist()]
            return v

        live = norm(data.values)
        uid = data.uid
        if live != want:
            res.fail(f"C08/live-text-differs/{p['via']}/{form}" + ("/nul" if nul else ""), f"written {want!r:.200} live {live!r:.200}")
            return
        del data, host
        ws = self.reopen(path)
        got = norm(ws.get_entity(uid)[0].values)
        if got != want:
            cond = "/nul" if nul else ("/one-entry" if isinstance(want, list) and len(want) == 1 else "")
            if isinstance(want, str) and want == "":
                cond = "/empty-string"
            res.fail(f"C08/reopen-text-differs/{p['via']}/{form}{cond}", f"written {want!r:.200} read back {got!r:.200}")
            return
        flat = want if isinstance(want, str) else "".join(want)
        res.nontrivial = any(ord(c) > 127 for c in flat) or "" in (want if isinstance(want, list) else [])

    # ------------------------------------------------------------------ others
    def owner(self, on):
        from geoh5py.groups import ContainerGroup
        from geoh5py.objects import Points

        if on == "group":
            return ContainerGroup.create(self._ws, name="owner")
        return Points.create(self._ws, vertices=np.zeros((2, 3)), name="owner")

    def case_metadata(self, p, res, path):
        def conv(v):
            if isinstance(v, str) and v.startswith("uuid:"):
                return uuid.UUID(v[5:])
            if isinstance(v, dict):
                return {k: conv(x) for k, x in v.items()}
            return v

        odd_kinds = set()

        def conv(v):  # noqa: F811 (extends the conversion above with the leaves JSON cannot hold)
            if isinstance(v, str) and v.startswith("uuid:"):
                return uuid.UUID(v[5:])
            if isinstance(v, str) and v.startswith("np:"):
                odd_kinds.add(v[3:])
                return {"array": np.array([1.5, 2.5]), "int64": np.int64(7), "float32": np.float32(0.1),
                        "bytes": b"\x00\xff", "set": {1, 2}, "complex": 1 + 2j, "tuple": (1, "a")}[v[3:]]
            if isinstance(v, dict):
                return {k: conv(x) for k, x in v.items()}
            return v

        value = conv(p["value"])
        owner = self.owner(p["on"])
        if odd_kinds:
            # unsupported leaf: refused, or stored and given back unchanged - never silently turned into something else
            res.label("metadata:unsupported-leaf")
            uid = owner.uid
            try:
                owner.metadata = {k: (dict(v) if isinstance(v, dict) else v) for k, v in value.items()}
            except Exception:
                res.label("metadata:unsupported-refused")
                res.nontrivial = True
                return
            del owner
            try:
                ws = self.reopen(path)
                got = ws.get_entity(uid)[0].metadata
            except Exception as exc:
                res.fail(f"C08/unsupported-metadata-accepted-then-unreadable/{'+'.join(sorted(odd_kinds))}",
                         f"{value!r:.200}: {type(exc).__name__}: {exc}"[:300])
                return

            def same(a, b):
                if isinstance(a, dict) and isinstance(b, dict):
                    return a.keys() == b.keys() and all(same(a[k], b[k]) for k in a)
                if isinstance(a, np.ndarray) or isinstance(b, np.ndarray):
                    return type(a) is type(b) and np.array_equal(a, b)
                if isinstance(a, tuple) and isinstance(b, list):  # JSON has one sequence type
                    return list(a) == b
                return type(a) is type(b) and a == b or (
                    isinstance(a, (int, float, np.number)) and isinstance(b, (int, float)) and not isinstance(a, bool)
                    and float(a) == float(b))

            if not same(value, got):
                res.fail(f"C08/unrepresentable-accepted/metadata/{'+'.join(sorted(odd_kinds))}",
                         f"written {value!r:.200} accepted, read back {got!r:.200}")
                return
            res.nontrivial = True
            return
        try:
            owner.metadata = {k: (dict(v) if isinstance(v, dict) else v) for k, v in value.items()}
        except Exception as exc:
            res.fail(f"C08/valid-metadata-rejected/{p['on']}", f"{value!r:.200}: {type(exc).__name__}: {exc}"[:300])
            return
        uid = owner.uid
        if owner.metadata != value:
            res.fail(f"C08/live-metadata-differs/{p['on']}", f"written {value!r:.200} live {owner.metadata!r:.200}")
            return
        del owner
        ws = self.reopen(path)
        got = ws.get_entity(uid)[0].metadata
        if got != value or _types(got) != _types(value):
            res.fail(f"C08/reopen-metadata-differs/{p['on']}", f"written {value!r:.300} read back {got!r:.300}")
            return
        res.nontrivial = True

    def case_comments(self, p, res, path):
        from geoh5py.data import Data

        owner = self.owner(p["on"])
        value = [{"Author": c["Author"], "Date": c["Date"], "Text": c["Text"]} for c in p["value"]]  # documented key order
        try:
            if p["on"] == "object":
                owner.add_data({"UserComments": {"values": value, "association": "OBJECT",
                                                 "entity_type": {"primitive_type": "TEXT"}}})
            else:
                self._ws.create_entity(Data, entity={"name": "UserComments", "association": "OBJECT",
                                                     "values": value, "parent": owner},
                                       entity_type={"primitive_type": "TEXT"})
        except Exception as exc:
            res.fail(f"C08/valid-comments-rejected/{p['on']}", f"{type(exc).__name__}: {exc}"[:300])
            return
        uid = owner.uid
        live = owner.comments.values if owner.comments is not None else None
        if live != value:
            res.fail(f"C08/live-comments-differ/{p['on']}", f"written {p['value']!r:.200} live {live!r:.200}")
            return
        del owner
        ws = self.reopen(path)
        ent = ws.get_entity(uid)[0]
        got = ent.comments.values if ent.comments is not None else None
        if got != value:
            res.fail(f"C08/reopen-comments-differ/{p['on']}", f"written {p['value']!r:.300} read back {got!r:.300}")
            return
        res.nontrivial = any(ord(c) > 127 for d in p["value"] for c in d["Text"] + d["Author"])

    def case_file(self, p, res, path):
        blob = bytes.fromhex(p["blob"])
        owner = self.owner(p["on"])
        try:
            data = owner.add_file(blob, name=p["name"])
        except Exception as exc:
            if len(blob) == 0:
                res.label("class:empty-blob-rejected")
                return
            res.fail(f"C08/valid-blob-rejected/{p['on']}", f"{len(blob)} bytes: {type(exc).__name__}: {exc}"[:300])
            return
        uid = data.uid
        if data.values != blob or data.file_name != p["name"]:
            res.fail(f"C08/live-blob-differs/{p['on']}", f"{len(blob)} bytes written, live {len(data.values or b'')} bytes name {data.file_name!r}")
            return
        del data, owner
        ws = self.reopen(path)
        fresh = ws.get_entity(uid)[0]
        if fresh.values != blob or fresh.file_name != p["name"]:
            cond = "/trailing-nul" if blob.endswith(b"\x00") else ""
            res.fail(f"C08/reopen-blob-differs/{p['on']}{cond}", f"{len(blob)} bytes written ({blob[-4:]!r} at end), read back {len(fresh.values or b'')} bytes, name {fresh.file_name!r}")
            return
        res.nontrivial = len(blob) > 0

    def case_valuemap(self, p, res, path):
        vmap = {int(k): v for k, v in p["value"].items()}
        if p["zero"] is not None:
            vmap[0] = p["zero"]
        host = self.host("VERTEX", 3)
        declared = dict(vmap)
        try:
            data = host.add_data({"r": {"values": np.asarray([1, 0, 2], dtype="int32"), "association": "VERTEX",
                                        "type": "referenced", "value_map": dict(vmap)}})
        except Exception as exc:
            if p["zero"] == "other":
                res.nontrivial = True
                res.label("zero-key-refused")
                return
            res.fail("C08/valid-valuemap-rejected/add", f"{declared!r:.200}: {type(exc).__name__}: {exc}"[:300])
            return
        uid = data.uid

        def check(label, mapping):
            if mapping.get(0) != "Unknown":
                res.fail(f"C08/{label}-key0-not-unknown/valuemap/zero={p['zero']}", f"declared {declared!r:.200} -> key 0 reads {mapping.get(0)!r}")
                return False
            for key, lab in declared.items():
                if key != 0 and mapping.get(key) != lab:
                    res.fail(f"C08/{label}-label-differs/valuemap", f"key {key}: declared {lab!r} got {mapping.get(key)!r}")
                    return False
            return True

        if not check("live", dict(data.value_map.map)):
            return
        edit = p.get("edit")
        if edit:
            # the stored map is edited: one declared label replaced, one key added
            if p.get("session") == "new":
                del data, host
                data = self.reopen(path, mode="r+").get_entity(uid)[0]
            key = sorted(k for k in declared if k != 0)[0] if any(k != 0 for k in declared) else None
            res.label(f"valuemap-edit:{edit}:{p.get('session')}")
            try:
                if edit == "fresh":
                    mapping = {k: v for k, v in declared.items() if k != 0}
                    if key is not None:
                        mapping[key] = p["relabel"]
                    mapping[p["newkey"]] = "added"
                    data.entity_type.value_map = mapping
                elif edit == "inplace-map":
                    live = data.value_map
                    if key is not None:
                        live[key] = p["relabel"]
                    live[p["newkey"]] = "added"
                    data.entity_type.value_map = live
                else:
                    mapping = data.value_map()
                    if key is not None:
                        mapping[key] = p["relabel"]
                    mapping[p["newkey"]] = "added"
                    data.entity_type.value_map = mapping
            except Exception as exc:
                res.fail(f"C08/valid-valuemap-rejected/edit/{edit}", f"{type(exc).__name__}: {exc}"[:300])
                return
            if key is not None:
                declared[key] = p["relabel"]
            declared[p["newkey"]] = "added"
            if not check("live-after-edit", dict(data.value_map.map)):
                return
        data = host = None
        ws = self.reopen(path)
        fresh = ws.get_entity(uid)[0]
        if not check("reopen", {int(k): v for k, v in dict(fresh.value_map.map).items()}):
            return
        res.nontrivial = True


def INT_NDV_IN(want):
    return any(w == K.INT_NDV for w in want if not isinstance(w, (bool, str)))


def _types(value):
    if isinstance(value, dict):
        return {k: _types(v) for k, v in value.items()}
    return type(value).__name__ if not isinstance(value, (int, float)) or isinstance(value, bool) else "num"


CHECK = C08()
