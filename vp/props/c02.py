"""C02 — every file the library writes is a structurally valid geoh5 file."""
from ..core import CaseResult, Check
from ..engines import tree


class C02(Check):
    pid = "C02"
    level = "exploration"
    budgets = {"quick": (110, 16), "thorough": (2200, 16)}
    rule = (
        "Tree programs (weights shifted to removals, re-parenting, same/cross-workspace copies and re-opens); "
        "after every close of every workspace the file is read with plain h5py (rawsnap) and checked against a "
        "validity predicate written from docs/content/geoh5_format: one project group, Data/Groups/Objects/Types "
        "containers, Root hard link == Groups/<root>, uid-named nodes with matching ID, Type link is the same "
        "HDF5 object (address) as Types/<kind> types/<type id>, every child entry is a hard link to the same "
        "object as the flat-container node, in-degree 1 and reachability from Root, no uid twice, property "
        "groups list only Data children of their object. Non-trivial = final file(s) with >=3 entities in >=2 "
        "containers after a program containing a remove, move or cross-workspace copy. Distinct = program hash."
    )
    assumptions = ["validity = documented layout only (undocumented ANALYST requirements unknown)",
                   "concatenated children are exempt here (C04 owns their layout)"]

    def cfg(self, tier):
        weights = dict(tree.DEFAULT_CFG["weights"])
        weights.update({"remove": 7, "move": 6, "copy": 7, "reopen": 4, "values": 1, "flag": 1, "rename": 1,
                        "metadata": 1, "observe": 1})
        # constructive starts (drawn): nothing / a drillhole group owning a file and a comment / an object with two
        # data sets in a property group (so that removals and repeated cross-workspace copies meet these shapes often)
        dh = [{"op": "group", "cls": "DrillholeGroup", "parent": 0, "name": "dh"},
              {"op": "file", "who": 0, "blob": [1, 2, 3], "name": "f.dat"},
              {"op": "comment", "who": 0, "text": "c"}]
        pg = [{"op": "object", "cls": "Points", "parent": 0, "name": "p", "geom": {"n": 3, "g": [1, 2, 3, 4]}},
              {"op": "data", "obj": 0, "kind": "float", "assoc": "VERTEX", "vals": [1, 2, 3], "name": "a", "short": 0, "pg": "pg1"},
              {"op": "data", "obj": 0, "kind": "int", "assoc": "VERTEX", "vals": [1, 2, 3], "name": "b", "short": 0, "pg": "pg1"}]
        # ... copied twice into the second workspace (the second time the children's identifiers are taken there)
        pg_cross = pg + [{"op": "copy", "who": 0, "to": 0, "children": True, "clear": False, "ws": 1, "twice": True,
                          "again_after_remove": False, "again_after_pg_delete": False}]
        cfg = {"weights": weights, "max_ops": 25, "prefixes": [[], [], dh, pg, dh + pg, pg_cross]}
        if tier == "thorough":
            cfg.update({"max_ops": 40, "object_classes": tree.F.OBJECT_CLASSES,
                        "group_classes": tree.F.GROUP_CLASSES})
        return cfg

    def strategy(self, tier):
        return tree.program_strategy(self.cfg(tier))

    def run_case(self, program):
        res = CaseResult()
        run, stats = tree.run_tree(program, res, {"C02"})
        kinds = set()
        n_final = 0
        for world in run.worlds:
            kinds |= set(world.kind.values())
            n_final += len(world.nodes) - 1
        res.nontrivial = (n_final >= 3 and len(kinds) >= 2 and not res.fails and
                          (bool(stats["kinds"] & {"remove", "move"}) or stats["cross_copies"] > 0))
        res.info = {"final_entities": n_final, "closes": stats["reopens"]}
        return res

    def shrink_candidates(self, program):
        for key, val in (("ws2", False), ("observe", "reopen"), ("version", 2.1)):
            if program.get(key) != val:
                cand = dict(program)
                cand[key] = val
                yield cand


CHECK = C02()
