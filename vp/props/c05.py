"""C05 — deletion removes exactly the entity, its descendants and all references to them."""
from ..core import CaseResult, Check
from hypothesis import strategies as st

from ..engines import concat, tree


class C05(Check):
    pid = "C05"
    level = "exploration"
    budgets = {"quick": (110, 16), "thorough": (2200, 16)}
    rule = (
        "Tree programs with removal-heavy weights (data in 0/1/several property groups, objects with children, "
        "nested groups, both entry points workspace.remove_entity / parent.remove_children, allow_delete=False). "
        "After each removal (harness references dropped, gc.collect()) and after every re-open: get_entity(uid), "
        "the groups/objects/data/property_groups listings, children lists and property groups must not yield a "
        "removed entity; after close no flat-container node, child link or PropertyGroups entry in the file "
        "(plain h5py) mentions it; survivors equal the reference model; any later valid operation that raises is a "
        "violation; removal of an allow_delete=False entity through the workspace must raise and leave the tree "
        "unchanged. One program in four runs on the drillhole-group (concatenated) model instead: removals of data, holes and "
        "tables through workspace / parent, refused removals of the protected location data, survivors must read back the "
        "model values, lookups by uid must not yield removed entities, raw index / attribute records must not mention them. "
        "Non-trivial = removal of an entity with >=1 descendant or >=1 property-group membership, "
        "followed by >=1 further effective operation and a re-open. Distinct = program hash."
    )
    assumptions = ["'once the caller has dropped its references' is taken literally: the harness drops them and "
                   "runs gc.collect() before asserting absence"]

    def cfg(self, tier):
        weights = dict(tree.DEFAULT_CFG["weights"])
        weights.update({"remove": 9, "pg_add": 6, "data": 8, "copy": 3, "move": 2, "flag": 2, "reopen": 3,
                        "values": 1, "rename": 1, "metadata": 0, "file": 1})
        # constructive prefix: a data set that is the only member of one property group and a member of a later one,
        # removed through the workspace or through its parent
        def shared(via):
            return [{"op": "object", "cls": "Points", "parent": 0, "name": "p", "geom": {"n": 3, "g": [1, 2, 3, 4]}, "deferred": False},
                    {"op": "data", "obj": 0, "kind": "float", "assoc": "VERTEX", "vals": [1, 2, 3], "name": "a", "short": 0, "pg": "pg1"},
                    {"op": "data", "obj": 0, "kind": "int", "assoc": "VERTEX", "vals": [1, 2, 3], "name": "b", "short": 0, "pg": "pg2"},
                    {"op": "pg_add", "obj": 0, "data": [0], "name": "pg2"},
                    {"op": "remove", "who": 1, "via": via, "ws": 0, "protect": False, "noref": False}]
        # ... a protected entity that was loaded from the file (flags come back from a file as 0 / 1) ...
        protected = [{"op": "object", "cls": "Points", "parent": 0, "name": "p", "geom": {"n": 3, "g": [1, 2, 3, 4]}, "deferred": False},
                     {"op": "data", "obj": 0, "kind": "float", "assoc": "VERTEX", "vals": [1, 2, 3], "name": "a", "short": 0},
                     {"op": "flag", "who": 0, "flag": "allow_delete", "value": False},
                     {"op": "reopen", "same": False},
                     {"op": "remove", "who": 0, "via": "ws", "ws": 0, "protect": False, "noref": False}]

        # ... and cell data that joined a group of vertex data by name, removed either way
        def mixed(via):
            return [{"op": "object", "cls": "Curve", "parent": 0, "name": "c", "geom": {"n": 4, "g": [1, 2, 3, 4, 5, 6]}, "deferred": False},
                    {"op": "data", "obj": 0, "kind": "float", "assoc": "VERTEX", "vals": [1, 2, 3, 4], "name": "a", "short": 0, "pg": "pg1"},
                    {"op": "data", "obj": 0, "kind": "float", "assoc": "CELL", "vals": [1, 2, 3], "name": "b", "short": 0, "pg": "pg1"},
                    {"op": "remove", "who": 2, "via": via, "ws": 0, "protect": False, "noref": False}]
        cfg = {"weights": weights, "max_ops": 25,
               "prefixes": [[], [], [], [], [], shared("ws"), shared("parent"), protected, mixed("ws"), mixed("parent")]}
        if tier == "thorough":
            cfg.update({"max_ops": 40, "object_classes": tree.F.OBJECT_CLASSES,
                        "group_classes": tree.F.GROUP_CLASSES})
        return cfg

    def strategy(self, tier):
        trees = tree.program_strategy(self.cfg(tier))
        holes = concat.program_strategy(max_ops=20 if tier == "quick" else 30, removal_heavy=True).map(
            lambda prog: {**prog, "family": "concat"})
        return st.one_of(trees, trees, trees, holes)

    def run_case(self, program):
        res = CaseResult()
        if program.get("family") == "concat":
            # concatenated holes and their data: same clauses on the drillhole-group model (signatures C05/...)
            run = concat.ConcatRun(program, res, pid="C05")
            stats = run.execute()
            res.label("family:concat")
            res.nontrivial = run.removal_seen and stats["ops"] >= 3 and not res.fails
            return res
        res.label("family:tree")
        run, stats = tree.run_tree(program, res, {"C05"})
        ops = program["ops"]
        res.nontrivial = stats["removals_rich"] > 0 and stats["effective"] >= 3 and not res.fails
        res.info = {"removed": len(run.removed), "rich_removals": stats["removals_rich"]}
        return res

    def shrink_candidates(self, program):
        for key, val in (("ws2", False), ("observe", "reopen"), ("version", 2.1)):
            if program.get(key) != val:
                cand = dict(program)
                cand[key] = val
                yield cand


CHECK = C05()
