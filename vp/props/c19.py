"""C19 — the reader tolerates missing optional content (fault enumeration: every single deletion)."""
import shutil

import h5py
import numpy as np
from hypothesis import strategies as st

from .. import env, factory as F
from ..apisnap import apisnap
from ..core import CaseResult, Check, phash
from ..engines import tree

CONTAINERS = ("Data", "Groups", "Objects")
TYPE_OF = {"Data": "Data types", "Groups": "Group types", "Objects": "Object types"}
MANDATORY_ATTRS = {"ID", "Name"}
# attributes the format documentation gives without a default / "(Optional)" mark: required, describe their owner
REQUIRED_ATTRS = {"Association", "Primitive type"}


def attr_class(attr):
    if attr in MANDATORY_ATTRS:
        return "mandatory"
    if attr in REQUIRED_ATTRS:
        return "other"
    return "optional"


@st.composite
def program_strategy(draw, max_ops=12):
    build = draw(tree.program_strategy({
        "max_ops": max_ops, "ws2": False,
        "weights": {**tree.DEFAULT_CFG["weights"], "reopen": 0, "gc": 0, "hold": 0, "release": 0, "observe": 0,
                    "remove": 1, "group": 5, "pg_add": 5, "data": 8},
        "prefix": [{"op": "group", "cls": "ContainerGroup", "parent": 0, "name": "g1"},
                   {"op": "group", "cls": "ContainerGroup", "parent": 1, "name": "g2"},
                   {"op": "object", "cls": "Points", "parent": 2, "name": "p", "geom": {"n": 3, "g": [1, 2, 3, 4]}},
                   {"op": "data", "obj": 0, "kind": "ref", "assoc": "VERTEX", "vals": [1, 2, 0], "name": "r", "short": 0, "pg": "pg1"},
                   {"op": "data", "obj": 0, "kind": "float", "assoc": "VERTEX", "vals": [1, None, 3], "name": "f", "short": 0, "pg": "pg1"},
                   {"op": "data", "obj": 0, "kind": "int", "assoc": "VERTEX", "vals": [4, 5, 6], "name": "i", "short": 0, "pg": "pg2"},
                   {"op": "data", "obj": 0, "kind": "float", "assoc": "VERTEX", "vals": [7, 8, 9], "name": "g", "short": 0, "pg": "pg3"}],
    }))
    build["observe"] = "reopen"
    build["allow_known"] = False
    return {"build": build, "colormap": draw(st.booleans()), "dh": draw(st.integers(0, 3)) == 0}


def enumerate_faults(h5: h5py.File):
    """All single deletions of one attribute or one link on canonical paths.
    Yields (kind, path, name, klass, described) with klass in optional|mandatory|other and described =
    ('entity', uid) | ('type', container, uid) | ('children', container, owner uid, sub) | ('project',) | ('root',)"""
    proj_name = list(h5)[0]
    proj = h5[proj_name]
    for attr in proj.attrs:
        if attr == "Version":
            # documented without a default: the specification version decides how the rest is decoded
            yield ("attr", proj_name, attr, "other", ("container", "project"))
        else:
            yield ("attr", proj_name, attr, "optional", ("project",))
    for name in proj:
        if name == "Root":
            yield ("link", proj_name, "Root", "optional", ("root",))
        elif name in CONTAINERS or name == "Types":
            yield ("link", proj_name, name, "mandatory", ("container", name))
    for tname in proj["Types"]:
        yield ("link", f"{proj_name}/Types", tname, "mandatory", ("container", tname))
        for uid in proj["Types"][tname]:
            tpath = f"{proj_name}/Types/{tname}/{uid}"
            yield ("link", f"{proj_name}/Types/{tname}", uid, "other", ("type", tname, uid))
            node = proj["Types"][tname][uid]
            for attr in node.attrs:
                yield ("attr", tpath, attr, attr_class(attr), ("type", tname, uid))
            for sub in node:
                klass = "optional" if sub in ("Color map", "Value map") else "other"
                yield ("link", tpath, sub, klass, ("type", tname, uid))
                if sub in ("Color map", "Value map"):
                    # labels stored on the map itself (e.g. the colour map's "File name") are not part of the
                    # documented format: optional attributes of the type
                    for attr in node[sub].attrs:
                        yield ("attr", f"{tpath}/{sub}", attr, "optional", ("type", tname, uid))
    for cname in CONTAINERS:
        for uid in proj[cname]:
            epath = f"{proj_name}/{cname}/{uid}"
            node = proj[cname][uid]
            yield ("link", f"{proj_name}/{cname}", uid, "other", ("entity", uid))
            for attr in node.attrs:
                yield ("attr", epath, attr, attr_class(attr), ("entity", uid))
            for sub in node:
                item = node[sub]
                if sub == "Type":
                    yield ("link", epath, sub, "mandatory", ("entity", uid))
                elif sub in CONTAINERS and isinstance(item, h5py.Group):
                    if len(item) == 0:
                        yield ("link", epath, sub, "optional", ("entity", None))
                    else:
                        yield ("link", epath, sub, "other", ("children", uid, sub))
                        for child in item:
                            yield ("link", f"{epath}/{sub}", child, "other", ("entity", child))
                elif sub == "PropertyGroups":
                    yield ("link", epath, sub, "optional", ("entity", uid))
                    for pg_uid in item:
                        # one property group of the block: it describes that group only
                        yield ("link", f"{epath}/PropertyGroups", pg_uid, "other", ("pg", uid, pg_uid))
                        for attr in item[pg_uid].attrs:
                            klass = "mandatory" if attr in ("ID", "Group Name") else "optional"
                            yield ("attr", f"{epath}/PropertyGroups/{pg_uid}", attr, klass, ("pg", uid, pg_uid))
                elif sub == "Concatenated Data":
                    yield ("link", epath, sub, "other", ("entity", uid))
                else:
                    yield ("link", epath, sub, "other", ("entity", uid))


class C19(Check):
    pid = "C19"
    level = "fault_enumeration"
    budgets = {"quick": (2, 16), "thorough": (30, 16)}
    ops_key = "none"
    exhaustive_note = ("per generated file, EVERY single deletion of one attribute or one link on the canonical paths "
                       "(project group, flat containers, entity nodes, sub-container links, datasets, type nodes) is "
                       "enumerated; the files themselves are sampled")
    rule = (
        "Corpus: files produced by generated tree programs (nested groups, objects of several classes, data with value "
        "maps and optionally a colour map, property groups). For each file every single deletion of one attribute or "
        "one link is applied to a copy with plain h5py and the copy is opened read-only. Items are classified from "
        "the statement: optional (non-identifying attributes of project / entity / type, Root, PropertyGroups block, "
        "Color map, Value map, empty child container), mandatory (ID, Name, Type link, flat container), other "
        "(non-empty child container, child link, dataset, flat-container / type-container entry). With D = entities "
        "described by the item and their descendants: optional => opening must not raise and every entity must be "
        "present, with content equal to the intact file's outside D; mandatory / other => an exception, or the same "
        "with presence relaxed for D. Never: an entity outside D with altered content, wrong parent or missing. "
        "evaluations = faults applied; non-trivial = fault in a file with >=3 entities where D is not everything; "
        "distinct = (file hash, fault path)."
    )
    assumptions = ["only single deletions (as the property quantifies); corrupted values are out of scope",
                   "child order and the identifier of a re-created root are not content"]

    def strategy(self, tier):
        return program_strategy(12 if tier == "quick" else 18)

    def shrink_candidates(self, program):
        build = program["build"]
        ops = build["ops"]
        for i in range(len(ops) - 1, -1, -1):
            yield {**program, "build": {**build, "ops": ops[:i] + ops[i + 1:]}}

    # ------------------------------------------------------------------
    def norm(self, snap):
        """uid -> node with the root uid normalised and child lists as sets."""
        root = snap["root"]
        out = {}
        for uid, node in snap["nodes"].items():
            node = dict(node)
            if node.get("parent") == root:
                node["parent"] = "ROOT"
            node.pop("n_child_entries", None)
            out["ROOT" if uid == root else uid] = node
        return out

    def run_case(self, program):
        from geoh5py.workspace import Workspace

        res = CaseResult()
        build_res = CaseResult()
        run, stats = tree.run_tree(program["build"], build_res, set())
        world = run.worlds[0] if run.worlds else None
        if world is None or not world.path.exists() or build_res.fails:
            res.label("build-failed")
            return res
        path = world.path
        if program.get("colormap"):
            ws = Workspace(path)
            try:
                floats = [d for d in ws.data if type(d).__name__ == "FloatData"]
                if floats:
                    floats[0].entity_type.color_map = np.asarray([[0.0, 10, 20, 30, 255], [1.0, 40, 50, 60, 255]])
            finally:
                ws.close()
        if program.get("dh"):
            from geoh5py.groups import DrillholeGroup
            from geoh5py.objects import Drillhole

            ws = Workspace(path)
            try:
                grp = DrillholeGroup.create(ws, name="dh")
                hole = Drillhole.create(ws, parent=grp, name="hole", collar=[0.0, 0.0, 0.0],
                                        surveys=np.asarray([[0.0, 0.0, -90.0], [10.0, 45.0, -80.0]]))
                hole.add_data({"a": {"depth": np.asarray([0.0, 1.0, 2.0]), "values": np.asarray([1.0, 2.0, np.nan])}})
            finally:
                ws.close()
        ws = Workspace(path, mode="r")
        try:
            intact = self.norm(apisnap(ws, with_listings=False))
        finally:
            ws.close()
        n_entities = len(intact) - 1
        kids = {}
        for uid, node in intact.items():
            kids.setdefault(node.get("parent"), []).append(uid)

        def descendants(uid):
            out, stack = set(), [uid]
            while stack:
                cur = stack.pop()
                for child in kids.get(cur, []):
                    if child not in out:
                        out.add(child)
                        stack.append(child)
            return out

        type_users = {}
        for uid, node in intact.items():
            if isinstance(node.get("type"), dict):
                type_users.setdefault(node["type"]["uid"], set()).add(uid)
        with h5py.File(path, "r") as h5:
            faults = list(enumerate_faults(h5))
        file_key = phash(program)
        n_faults = 0
        for kind, fpath, name, klass, described in faults:
            # ---- D: entities described by the item (and their descendants)
            real_root = self.root_uid_of(path)
            key_of = lambda u: "ROOT" if u == real_root else u  # noqa: E731
            if described[0] == "entity":
                base = {key_of(described[1].strip("{}"))} if described[1] else set()
            elif described[0] == "type":
                base = set(type_users.get(described[2].strip("{}"), set()))
            elif described[0] == "children":
                owner = key_of(described[1].strip("{}"))
                sub_kind = {"Data": ("Data",), "Groups": ("Group",), "Objects": ("Object",)}[described[2]]
                base = set()
                for child in kids.get(owner, []):
                    cls = intact[child].get("cls", "")
                    is_data = cls.endswith("Data") or cls == "VisualParameters"
                    is_group = cls.endswith("Group") or cls.endswith("Theme") or cls in ("IntegratorProject", "GeochemistryMineralogyDataSet", "AirborneGeophysics")
                    which = "Data" if is_data else ("Groups" if is_group else "Objects")
                    if which == described[2]:
                        base.add(child)
            elif described[0] == "pg":
                base = set()
            elif described[0] == "root":
                base = {"ROOT"}
            elif described[0] == "container":
                base = set(intact)
            else:
                base = set()
            dset = set()
            for uid in base:
                dset.add(uid)
                if klass != "optional":
                    # "...leaves out only the entities that item describes together with their descendants"
                    dset |= descendants(uid)
            copy = env.new_path("fault")
            shutil.copy(path, copy)
            with h5py.File(copy, "r+") as h5:
                node = h5[fpath]
                if kind == "attr":
                    del node.attrs[name]
                else:
                    del node[name]
            n_faults += 1
            label = f"{klass}:{kind}"
            sig_item = self.item_class(kind, fpath, name)
            raised = None
            snap = None
            fws = None
            try:
                fws = Workspace(copy, mode="r")
                snap = self.norm(apisnap(fws, with_listings=False))
            except Exception as exc:
                raised = f"{type(exc).__name__}: {exc}"[:200]
                import os
                if os.environ.get("VP_DEBUG"):
                    import traceback
                    traceback.print_exc()
            finally:
                env.close_quietly(fws)
                try:
                    copy.unlink()
                except OSError:
                    pass
            nontrivial = n_entities >= 3 and len(dset) < len(intact)
            if nontrivial:
                res.keys.append(f"{file_key}:{fpath}:{name}")
            res.label(label)
            if raised is not None:
                if klass == "optional":
                    res.fail(f"C19/optional-item-missing-raises/{sig_item}/{klass}/{raised.split(':')[0]}",
                             f"deleting optional {kind} {fpath} :: {name} makes the reader raise {raised}")
                    break
                res.label("raised:" + klass)
                continue
            # presence
            problem = None
            for uid, node in intact.items():
                if uid in dset:
                    if klass == "optional" and uid not in snap:
                        problem = ("optional-item-missing-drops-entity", f"{node.get('cls')} {uid} (described by the item) is missing")
                        break
                    continue
                got = snap.get(uid)
                if got is None:
                    problem = ("unrelated-entity-missing", f"{node.get('cls')} {uid} is missing")
                    break
                a, b = dict(node), dict(got)
                if described[0] == "pg" and uid == key_of(described[1].strip("{}")):
                    # the owner of the touched property group: every OTHER group must be intact
                    touched = described[2].strip("{}")
                    others = [k for k in (node.get("pgs") or {}) if k != touched]
                    a["pgs"] = {k: (node.get("pgs") or {}).get(k) for k in others}
                    b["pgs"] = {k: (got.get("pgs") or {}).get(k) for k in others}
                for side in (a, b):
                    if "children" in side:
                        side["children"] = sorted(c for c in side["children"] if c not in dset and (c in intact or c == "ROOT"))
                if described[0] == "root":
                    for side in (a, b):
                        if side.get("parent") == self.root_uid_of(path):
                            side["parent"] = "ROOT"
                diff = [k for k in sorted(set(a) | set(b)) if a.get(k) != b.get(k)]
                if diff:
                    problem = ("unrelated-entity-altered", f"{node.get('cls')} {uid} field {diff[0]}: intact={a.get(diff[0])!r:.150} now={b.get(diff[0])!r:.150}")
                    cond_field = diff[0]
                    break
            if problem:
                cond = klass + (":" + cond_field if problem[0] == "unrelated-entity-altered" else "")
                res.fail(f"C19/{problem[0]}/{sig_item}/{cond}/", f"deleted {kind} {fpath} :: {name} (D={sorted(dset)[:4]}): {problem[1]}")
                break
        res.evals = max(1, n_faults)
        res.count("faults", n_faults)
        res.count("files", 1)
        res.nontrivial = bool(res.keys)
        res.info = {"entities": n_entities, "faults": n_faults}
        return res

    _root_cache: dict = {}

    def root_uid_of(self, path):
        key = str(path)
        if key not in self._root_cache:
            with h5py.File(path, "r") as h5:
                proj = h5[list(h5)[0]]
                self._root_cache = {key: str(proj["Root"].attrs["ID"]).strip("{}") if "Root" in proj else None}
        return self._root_cache[key]

    def item_class(self, kind, fpath, name):
        parts = fpath.split("/")
        if len(parts) == 1:
            where = "project"
        elif parts[1] == "Types":
            where = "type" if len(parts) >= 4 else "types-container"
        elif len(parts) == 2:
            where = "flat-container"
        elif len(parts) == 3:
            where = parts[1].lower() + "-node"
        elif "PropertyGroups" in parts:
            where = "property-group"
        else:
            where = parts[1].lower() + "-children"
        label = name if not name.startswith("{") else "uid-link"
        return f"{where}:{kind}:{label}"


CHECK = C19()
