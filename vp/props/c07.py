"""C07 — data stay aligned with the geometry they are attached to."""
import numpy as np
from hypothesis import strategies as st

from .. import env, factory as F
from ..core import CaseResult, Check

KINDS = ["float", "int", "bool", "ref", "text"]
# the caller's array dtype is free as long as it can hold the values: native, narrower integers, integers for float data
DTYPES = ["native", "native", "native", "int8", "int16", "int64", "uint8", "float32", "int32"]


def recast(kind, arr, dt):
    """Same values in another NumPy dtype the data kind accepts (no information lost)."""
    if dt == "native" or kind in ("text", "bool"):
        return arr
    if kind == "float":
        if dt in ("int8", "int16", "int32", "int64") and not np.isnan(arr).any() and np.all(arr == np.round(arr)):
            return arr.astype(dt)
        if dt == "float32":
            return arr.astype("float32")  # values are multiples of 1/4: exact
        return arr
    if kind in ("int", "ref"):
        if dt in ("int8", "int16", "int64", "int32") and np.all(np.abs(arr) < 100):
            return arr.astype(dt)
        if dt == "uint8" and np.all(arr >= 0):
            return arr.astype(dt)
    return arr
PAD = {"float": "NaN", "int": -2147483648, "ref": -2147483648, "bool": False}


def canon(values):
    out = []
    for v in np.asarray(values).ravel().tolist():
        out.append("NaN" if isinstance(v, float) and v != v else v)
    return out


@st.composite
def program_strategy(draw, max_ops=8):
    cls = draw(st.sampled_from(["Points", "Curve", "Surface", "Curve", "Surface"]))
    n = draw(st.integers(1 if cls == "Points" else (2 if cls == "Curve" else 3), 12))
    width = {"Points": 0, "Curve": 2, "Surface": 3}[cls]
    cells = []
    if width:
        n_cells = draw(st.integers(1, 10))
        # restrict to a subset of vertices so that vertices used by no cell are frequent
        top = draw(st.integers(1, n))
        cells = draw(st.lists(st.lists(st.integers(0, top - 1), min_size=width, max_size=width), min_size=n_cells, max_size=n_cells))
    idx = st.lists(st.integers(0, 30), min_size=1, max_size=6)
    vals = st.lists(st.one_of(st.integers(-20, 20), st.none()), min_size=0, max_size=14)
    op = st.one_of(
        st.fixed_dictionaries({"op": st.just("add"), "kind": st.sampled_from(KINDS), "assoc": st.sampled_from(["VERTEX", "CELL"]),
                               "vals": vals, "len": st.sampled_from(["exact", "exact", "short", "long"]),
                               "dt": st.sampled_from(DTYPES)}),
        st.fixed_dictionaries({"op": st.just("set"), "data": st.integers(0, 10), "vals": vals,
                               "len": st.sampled_from(["exact", "short", "long"]), "dt": st.sampled_from(DTYPES)}),
        st.fixed_dictionaries({"op": st.just("rmv"), "idx": idx, "as": st.sampled_from(["list", "array"]),
                               "shape": st.sampled_from(["free", "first", "last", "all-but-one", "free", "free"]),
                               "clear": st.booleans()}),
        st.fixed_dictionaries({"op": st.just("rmc"), "idx": idx, "as": st.sampled_from(["list", "array"]),
                               "shape": st.sampled_from(["free", "first", "last", "all-but-one", "free"]),
                               "clear": st.booleans()}),
        st.fixed_dictionaries({"op": st.just("mcopy"), "mask": st.lists(st.booleans(), min_size=1, max_size=12)}),
        # a masked copy of ONE data set (onto the same object): the source data set keeps every value
        st.fixed_dictionaries({"op": st.just("dcopy"), "data": st.integers(0, 10),
                               "mask": st.lists(st.booleans(), min_size=2, max_size=12)}),
        st.just({"op": "reopen"}),
        # "blind": nothing is read from the re-opened object before the next operation
        st.just({"op": "reopen", "blind": True}),
        # more vertices are appended through the `vertices` setter and the file is re-opened (the live arrays are not
        # judged in between: the statement lists no growth operation, a reader must still find one entry per vertex)
        st.fixed_dictionaries({"op": st.just("grow"), "k": st.integers(1, 3)}),
    )
    seed_ops = [draw(st.fixed_dictionaries({"op": st.just("add"), "kind": st.sampled_from(KINDS),
                                            "assoc": st.sampled_from(["VERTEX", "CELL"]), "vals": vals,
                                            "len": st.just("exact")})) for _ in range(draw(st.integers(0, 3)))]
    ops = seed_ops + draw(st.lists(op, min_size=1, max_size=max_ops))
    return {"cls": cls, "n": n, "g": draw(st.lists(st.integers(-9, 9), min_size=3, max_size=12)), "cells": cells,
            "ops": ops, "allow_known": draw(st.integers(0, 9)) == 0}


class Model:
    def __init__(self, verts, cells):
        self.verts = [(i, tuple(v)) for i, v in enumerate(verts)]  # (tag, xyz)
        self.cells = [(j, tuple(int(c) for c in cell)) for j, cell in enumerate(cells)]  # (tag, vertex tags)
        self.data = {}  # name -> {kind, assoc, vals: {tag: value}}
        self.next_v = len(self.verts)

    def count(self, assoc):
        return len(self.verts) if assoc == "VERTEX" else len(self.cells)

    def tags(self, assoc):
        return [t for t, _ in (self.verts if assoc == "VERTEX" else self.cells)]

    def copy(self):
        m = Model([], [])
        m.verts, m.cells = list(self.verts), list(self.cells)
        m.next_v = self.next_v
        m.data = {k: {"kind": d["kind"], "assoc": d["assoc"], "vals": dict(d["vals"])} for k, d in self.data.items()}
        return m

    def remove_vertices(self, positions):
        gone = {self.verts[p][0] for p in positions}
        self.verts = [v for v in self.verts if v[0] not in gone]
        dead_cells = {t for t, vt in self.cells if any(x in gone for x in vt)}
        self.cells = [c for c in self.cells if c[0] not in dead_cells]
        for d in self.data.values():
            drop = gone if d["assoc"] == "VERTEX" else dead_cells
            d["vals"] = {t: v for t, v in d["vals"].items() if t not in drop}

    def remove_cells(self, positions):
        gone = {self.cells[p][0] for p in positions}
        self.cells = [c for c in self.cells if c[0] not in gone]
        for d in self.data.values():
            if d["assoc"] == "CELL":
                d["vals"] = {t: v for t, v in d["vals"].items() if t not in gone}


class C07(Check):
    pid = "C07"
    level = "exploration"
    budgets = {"quick": (160, 16), "thorough": (4000, 16)}
    rule = (
        "One Points/Curve/Surface object (1-12 lattice vertices; cells are arbitrary tuples over a drawn subset of "
        "vertices so unreferenced vertices, repeated vertices and unordered cells occur by construction) with data of "
        "every kind on vertices/cells, then 1-8 operations: add_data / values assignment with shorter, exact or longer "
        "arrays, remove_vertices / remove_cells with unsorted, repeated, first/last/all-but-one index lists (list or "
        "ndarray, with or without clear_cache), masked copy, re-open. Reference model in plain Python with a "
        "provenance tag per vertex and per cell. After each operation, live and after re-open: every vertex/cell "
        "data array has exactly n_vertices/n_cells entries, the value of each surviving element equals the value "
        "carried by its tag (shorter arrays padded with the kind's no-data value, longer ones refused without state "
        "change), every cell index < n_vertices, each surviving cell joins the same coordinates as its tag, cells "
        "touching a removed vertex are gone; if an operation raises, the object must still satisfy these clauses "
        "against the pre- or the post-state. Non-trivial = a removal on a geometry with >=1 data set whose index "
        "set is not just the last element. Distinct = program hash."
    )

    def strategy(self, tier):
        return program_strategy(max_ops=8 if tier == "quick" else 12)

    # ------------------------------------------------------------------
    def verify(self, obj, model, res, opname, where, clause_prefix=""):
        """All alignment clauses of `obj` against `model`; returns list of (clause, detail)."""
        bad = []
        verts = obj.vertices
        n_v = 0 if verts is None else verts.shape[0]
        if n_v != len(model.verts):
            bad.append(("vertex-count", f"{n_v} vertices, model {len(model.verts)}"))
            return bad
        for i, (tag, xyz) in enumerate(model.verts):
            if tuple(verts[i].tolist()) != xyz:
                bad.append(("vertex-coordinates", f"vertex {i}: {verts[i].tolist()} expected {xyz}"))
                return bad
        coords = {tag: xyz for tag, xyz in model.verts}
        if model.cells or getattr(obj, "cells", None) is not None and self.has_cells:
            cells = obj.cells
            n_c = 0 if cells is None else cells.shape[0]
            if n_c != len(model.cells):
                bad.append(("cell-count", f"{n_c} cells, model {len(model.cells)}"))
                return bad
            for j, (tag, vt) in enumerate(model.cells):
                row = cells[j].tolist()
                if any(int(c) >= n_v or int(c) < 0 for c in row):
                    bad.append(("cell-index-out-of-range", f"cell {j} = {row} with {n_v} vertices"))
                    return bad
                got = tuple(tuple(verts[int(c)].tolist()) for c in row)
                want = tuple(coords[t] for t in vt)
                if got != want:
                    bad.append(("cell-joins-other-coordinates", f"cell {j}: joins {got}, before it joined {want}"))
                    return bad
        for name, d in model.data.items():
            child = obj.get_data(name)
            if not child:
                bad.append(("data-missing", name))
                return bad
            try:
                values = child[0].values
            except Exception as exc:
                bad.append(("values-getter-raises", f"{name}: {type(exc).__name__}: {exc}"))
                return bad
            tags = model.tags(d["assoc"])
            if d["kind"] == "text" and isinstance(values, str):
                values = np.asarray([values])
            n = 0 if values is None else len(values)
            if d["kind"] == "text" and n < len(tags) and len(d["vals"]) == n:
                continue
            if n != len(tags):
                bad.append(("data-length", f"{name} ({d['kind']},{d['assoc']}): {n} entries for {len(tags)} elements"))
                return bad
            got = canon(values)
            want = [d["vals"].get(t, PAD.get(d["kind"], "")) for t in tags]
            if got != want:
                bad.append(("data-values", f"{name} ({d['kind']},{d['assoc']}): {got} expected {want}"))
                return bad
        return bad

    def run_case(self, program):
        from geoh5py.workspace import Workspace

        res = CaseResult()
        cls_name, n = program["cls"], program["n"]
        path = env.new_path("c07")
        ws = Workspace.create(path)
        self.has_cells = cls_name != "Points"
        try:
            verts = F.lattice(program["g"], n)
            kwargs = {"vertices": verts.copy()}
            cells_in = [[c % n for c in row] for row in program["cells"]]
            if self.has_cells:
                kwargs["cells"] = np.asarray(cells_in, dtype="uint32")
            obj = F.get_class(cls_name).create(ws, name="obj", **kwargs)
            uid = obj.uid
            model = Model(verts.tolist(), cells_in if self.has_cells else [])
            serial = 0
            zero_cells = ""
            removal_nontrivial = False
            for step, op in enumerate(program["ops"]):
                kind = op["op"]
                pre = model.copy()
                raised = None
                if kind in ("add", "set"):
                    if kind == "add":
                        assoc = op["assoc"] if self.has_cells else "VERTEX"
                        dkind = op["kind"]
                        name = f"d{serial}"
                        serial += 1
                    else:
                        names = sorted(model.data)
                        if not names:
                            continue
                        name = names[op["data"] % len(names)]
                        assoc, dkind = model.data[name]["assoc"], model.data[name]["kind"]
                    count = model.count(assoc)
                    if count == 0:
                        continue
                    length = {"exact": count, "short": max(1, count - 1 - len(op["vals"]) % 2), "long": count + 1 + len(op["vals"]) % 2}[op["len"]]
                    if dkind == "text":
                        length = count if op["len"] != "long" else length
                    vals = (list(op["vals"]) + [None, 3, -2, 7, None, 1] * 4)[:length]
                    arr, exp = F.make_values(dkind, vals, max(count, length))
                    dt = op.get("dt", "native")
                    if dkind == "float" and dt in ("int8", "int16", "int32", "int64", "uint8"):
                        # an integer array offered to float data: same numbers, gaps only from padding
                        ints = [abs(v or 0) % 100 if dt == "uint8" else (v or 0) for v in vals]
                        arr = np.asarray(ints, dtype=dt)
                        exp = [float(x) for x in ints] + ["NaN"] * (max(count, length) - length)
                    else:
                        arr = recast(dkind, arr, dt)
                    res.label(f"dtype:{dkind}<-{arr.dtype}")
                    exp_vals = exp[:count] if length <= count else None
                    res.label(f"{kind}:{dkind}:{op['len']}")
                    try:
                        if kind == "add":
                            obj.add_data({name: F.data_spec(dkind, assoc, arr)})
                        else:
                            obj.get_data(name)[0].values = arr
                    except Exception as exc:
                        raised = f"{type(exc).__name__}: {exc}"[:200]
                    if length > count:
                        if raised is None:
                            res.fail(f"C07/longer-array-accepted/{kind}/{dkind}/{assoc}", f"{length} values for {count} elements accepted")
                            return res
                        # refusal: for add the data may or may not exist; state must equal the pre-state
                        if kind == "add":
                            leftover = obj.get_data(name)
                            if leftover:
                                res.fail(f"C07/refused-add-leaves-data/{kind}/{dkind}/{assoc}", f"add_data refused ({raised}) but {name} is a child with values {leftover[0].values!r:.100}")
                                return res
                    elif raised is not None:
                        res.fail(f"C07/valid-values-refused/{kind}/{dkind}/{assoc}/{op['len']}", f"{length} values for {count} elements: {raised}")
                        return res
                    else:
                        tags = model.tags(assoc)
                        model.data[name] = {"kind": dkind, "assoc": assoc,
                                            "vals": {t: (("NaN" if v == "NaN" else v)) for t, v in zip(tags, exp_vals)}}
                elif kind in ("rmv", "rmc"):
                    if kind == "rmc" and not self.has_cells:
                        continue
                    count = len(model.verts) if kind == "rmv" else len(model.cells)
                    if count <= 1:
                        continue
                    shape = op["shape"]
                    if shape == "first":
                        idx = [0]
                    elif shape == "last":
                        idx = [count - 1]
                    elif shape == "all-but-one":
                        keep = op["idx"][0] % count
                        idx = [i for i in range(count) if i != keep]
                        if op["idx"][-1] % 2:
                            idx = idx[::-1]
                    else:
                        idx = [i % count for i in op["idx"]]
                        if len(set(idx)) >= count:
                            idx = idx[:1]
                    positions = sorted(set(idx))
                    touches_cell = True
                    if kind == "rmv" and self.has_cells:
                        gone = {model.verts[p][0] for p in positions}
                        touches_cell = any(any(x in gone for x in vt) for _, vt in model.cells)
                        if not touches_cell and not program.get("allow_known") and self.guard_no_cell_touched:
                            res.count("excluded_by_finding")
                            continue
                    trial = model.copy()
                    (trial.remove_vertices if kind == "rmv" else trial.remove_cells)(positions)
                    if self.has_cells and not trial.cells and any(d["assoc"] == "CELL" for d in model.data.values()):
                        # (fixed finding: zero-length data arrays were not handled by the writer / reader)
                        zero_cells = ":no-cell-left"
                    arg = list(idx) if op["as"] == "list" else np.asarray(idx)
                    if model.data and positions != [count - 1]:
                        removal_nontrivial = True
                    res.label(f"{kind}:{shape}" + ("" if touches_cell else ":no-cell-touched"))
                    try:
                        if kind == "rmv":
                            obj.remove_vertices(arg, clear_cache=op["clear"])
                        else:
                            obj.remove_cells(arg, clear_cache=op["clear"])
                    except Exception as exc:
                        raised = f"{type(exc).__name__}: {exc}"[:200]
                    if kind == "rmv":
                        model.remove_vertices(positions)
                    else:
                        model.remove_cells(positions)
                    if self.has_cells and not model.cells and raised is None:
                        pass
                    if raised is not None:
                        # failure consistency: must match pre- or post-state
                        bad_post = self.verify(obj, model, res, kind, "live")
                        bad_pre = self.verify(obj, pre, res, kind, "live")
                        if bad_post and bad_pre:
                            cond = ("no-cell-touched" if not touches_cell else "cells-touched") + zero_cells
                            res.fail(f"C07/failed-op-leaves-inconsistent/{kind}/{cls_name}/{cond}",
                                     f"{kind}({idx}) raised {raised}; vs post-state: {bad_post[0]}; vs pre-state: {bad_pre[0]}")
                            return res
                        res.fail(f"C07/valid-removal-raises/{kind}/{cls_name}/" + ("no-cell-touched" if not touches_cell else "cells-touched") + zero_cells,
                                 f"{kind}({idx}) on {count} elements raised {raised}")
                        return res
                elif kind == "mcopy":
                    nv = len(model.verts)
                    mask = np.asarray((list(op["mask"]) * nv)[:nv], dtype=bool)
                    if not mask.any():
                        continue
                    keep_v = {model.verts[i][0] for i in range(nv) if mask[i]}
                    cm = model.copy()
                    cm.verts = [v for v in model.verts if v[0] in keep_v]
                    dead = {t for t, vt in model.cells if not all(x in keep_v for x in vt)}
                    cm.cells = [c for c in model.cells if c[0] not in dead]
                    for d in cm.data.values():
                        drop = dead if d["assoc"] == "CELL" else {t for t, _ in model.verts if t not in keep_v}
                        d["vals"] = {t: v for t, v in d["vals"].items() if t not in drop}
                    if self.has_cells and not cm.cells:
                        continue  # a cell object without cells: outcome not fixed by the statement
                    try:
                        new = obj.copy(mask=mask, name="masked")
                    except Exception as exc:
                        res.fail(f"C07/masked-copy-raises/mcopy/{cls_name}/", f"mask {mask.tolist()}: {type(exc).__name__}: {exc}"[:300])
                        return res
                    res.label("mcopy")
                    bad = self.verify(new, cm, res, "mcopy", "copy")
                    if bad:
                        res.fail(f"C07/{bad[0][0]}/mcopy/{cls_name}/copy", f"mask {mask.tolist()}: {bad[0][1]}")
                        return res
                    ws.remove_entity(new)
                    del new
                elif kind == "dcopy":
                    names = sorted(n for n, d in model.data.items() if d["kind"] != "text")
                    if not names:
                        continue
                    name = names[op["data"] % len(names)]
                    count = model.count(model.data[name]["assoc"])
                    mask = np.asarray((list(op["mask"]) * count)[:count], dtype=bool)
                    if count < 2 or mask.all() or not mask.any():
                        continue
                    child = obj.get_data(name)
                    if not child:
                        continue
                    try:
                        new = child[0].copy(mask=mask, name="masked data")
                    except Exception as exc:
                        res.label(f"dcopy:refused:{type(exc).__name__}")
                        continue
                    res.label("dcopy")
                    if new is not None:
                        ws.remove_entity(new)
                    del new, child
                elif kind == "grow":
                    if any(d["kind"] == "text" for d in model.data.values()):
                        res.label("grow:skipped-text-data")  # text arrays have no length rule (recorded finding)
                        continue
                    old = np.asarray(obj.vertices, dtype=float)
                    extra = old[-1] + np.arange(1, op["k"] + 1)[:, None] * np.asarray([1.5, -0.5, 0.25])
                    try:
                        obj.vertices = np.vstack([old, extra])
                    except Exception as exc:
                        res.label(f"grow:refused:{type(exc).__name__}")
                        continue
                    for row in extra.tolist():
                        model.verts.append((model.next_v, tuple(row)))
                        model.next_v += 1
                    res.label("grow")
                    ws.close()
                    del obj
                    ws = Workspace(path)
                    obj = ws.get_entity(uid)[0]
                elif kind == "reopen":
                    ws.close()
                    del obj
                    ws = Workspace(path)
                    obj = ws.get_entity(uid)[0]
                    res.label("reopen")
                    if op.get("blind"):
                        res.label("reopen:nothing-read-before-next-op")
                        continue
                bad = self.verify(obj, model, res, kind, "live")
                if bad:
                    res.fail(f"C07/{bad[0][0]}/{kind}/{cls_name}/live{zero_cells}", f"step {step} {op}: {bad[0][1]}"[:600])
                    return res
            ws.close()
            del obj
            ws = Workspace(path, mode="r")
            obj = ws.get_entity(uid)[0]
            bad = self.verify(obj, model, res, "final", "reopened")
            if bad:
                res.fail(f"C07/{bad[0][0]}/final/{cls_name}/reopened{zero_cells}", bad[0][1][:600])
                return res
            res.nontrivial = removal_nontrivial
            return res
        finally:
            env.close_quietly(ws)

    guard_no_cell_touched = False

    def shrink_candidates(self, program):
        if program["n"] > 3:
            yield {**program, "n": program["n"] - 1}
        if len(program["cells"]) > 1:
            yield {**program, "cells": program["cells"][:-1]}


CHECK = C07()
