"""C01 — re-opening a file yields exactly the state built through the API."""
from ..core import CaseResult, Check
from ..engines import tree


class C01(Check):
    pid = "C01"
    level = "exploration"
    budgets = {"quick": (110, 16), "thorough": (2200, 16)}
    rule = (
        "Hypothesis-generated operation programs (create group/object/data, set values, rename, flags, move, "
        "copy incl. cross-workspace, remove via workspace/parent, property-group edits, metadata, files, "
        "re-open, gc, hold/release) run against geoh5py and a reference model; compared after every "
        "mutation (observe=every) or at re-opens only, and live-vs-fresh at every re-open and at the end. "
        "Non-trivial = >=3 effective operations of >=2 kinds, at least one mutation (values/rename/flag/move/"
        "copy/remove/pg edit) of an entity already on file, a later re-open, and a final tree of >=2 non-root "
        "entities. Distinct = distinct program hash."
    )
    assumptions = [
        "GC placement explored at operation boundaries only",
        "uuid4 replaced by a per-case seeded generator (replayable uids)",
        "h5repack is a stub that fails (as when not installed)",
        "a library exception on a valid-by-construction operation ends the case (counted as op_error), "
        "it is not a C01 violation",
    ]

    def cfg(self, tier):
        if tier == "thorough":
            return {"max_ops": 40, "object_classes": tree.F.OBJECT_CLASSES, "group_classes": tree.F.GROUP_CLASSES}
        return {"max_ops": 25}

    def strategy(self, tier):
        return tree.program_strategy(self.cfg(tier))

    def run_case(self, program):
        res = CaseResult()
        run, stats = tree.run_tree(program, res, {"C01"})
        mutated = stats["kinds"] & {"values", "rename", "flag", "move", "copy", "remove", "pg_add",
                                    "pg_remove_props", "pg_delete", "metadata"}
        n_final = sum(len(w.nodes) - 1 for w in run.worlds)
        res.nontrivial = (stats["effective"] >= 3 and len(stats["kinds"]) >= 2 and bool(mutated)
                          and stats["onfile_mutations"] > 0 and n_final >= 2 and not res.fails)
        if stats["reopens"] >= 2:
            res.label("reopens>=2")
        if "gc" in stats["kinds"] and "remove" in stats["kinds"]:
            res.label("gc+remove")
        if "hold" in stats["kinds"] and stats["reopens"] >= 2:
            res.label("hold-across-reopen")
        res.info = {"effective": stats["effective"], "final_entities": n_final}
        return res

    def shrink_candidates(self, program):
        for key, val in (("ws2", False), ("observe", "reopen"), ("version", 2.1)):
            if program.get(key) != val:
                cand = dict(program)
                cand[key] = val
                yield cand


CHECK = C01()
