"""C20 — linked surveys stay mutually consistent."""
import itertools
import json
import uuid

import h5py
import numpy as np
from hypothesis import strategies as st

from .. import env
from ..core import CaseResult, Check

# name -> (receiver-side class, transmitter-side class, family, attr on A pointing to B, attr on B pointing to A)
PAIRS = {
    "airborne_tem": ("AirborneTEMReceivers", "AirborneTEMTransmitters", "em", "transmitters", "receivers"),
    "airborne_fem": ("AirborneFEMReceivers", "AirborneFEMTransmitters", "em", "transmitters", "receivers"),
    "moving_tem": ("MovingLoopGroundTEMReceivers", "MovingLoopGroundTEMTransmitters", "em", "transmitters", "receivers"),
    "moving_fem": ("MovingLoopGroundFEMReceivers", "MovingLoopGroundFEMTransmitters", "em", "transmitters", "receivers"),
    "large_tem": ("LargeLoopGroundTEMReceivers", "LargeLoopGroundTEMTransmitters", "large", "transmitters", "receivers"),
    "large_fem": ("LargeLoopGroundFEMReceivers", "LargeLoopGroundFEMTransmitters", "large", "transmitters", "receivers"),
    "tipper": ("TipperReceivers", "TipperBaseStations", "tipper", "base_stations", "receivers"),
    "dc": ("PotentialElectrode", "CurrentElectrode", "dc", "current_electrodes", "potential_electrodes"),
}
EDITS = ["channels", "unit", "input_type", "loop_radius", "offset_value", "offset_property", "angle", "bearing",
         "waveform", "timing_mark", "components", "reopen", "copy", "copy_cross", "copy_of_copy", "copy_extent",
         "edit_copy", "edit_copy", "refused_link", "relink", "refused_metadata", "crs"]


def op_strategy():
    return st.fixed_dictionaries({"op": st.sampled_from(EDITS), "side": st.sampled_from(["A", "B"]),
                                  "v": st.lists(st.integers(1, 9), min_size=1, max_size=4)})


class C20(Check):
    pid = "C20"
    level = "exploration"
    budgets = {"quick": (120, 16), "thorough": (2500, 16)}
    exhaustive_note = ("the (pair, linking direction) dimension - 8 survey pairs x 2 directions - is enumerated completely "
                       "with three fixed programs each; operation programs are sampled by Hypothesis on top")
    rule = (
        "For every receiver/transmitter, receiver/base-station and potential/current electrode pair and both linking "
        "directions, a program of 1-10 operations: edits of shared parameters through either side (channels, unit, "
        "input_type, loop_radius, offsets/angles as value or as data uid, relative_to_bearing, waveform, timing_mark, "
        "component data), copies (plain, into a second workspace, copy of a copy, by extent), re-opens. After linking "
        "and after every operation, live and after re-open: the raw Metadata JSON of both stored nodes (plain h5py) "
        "and the API getters contain both identifiers; every shared field read through A equals the one read through B "
        "and the stored one; after re-open a.partner is b and b.partner is a. Copies: the partner of the copy is a new "
        "entity whose partner is the copy, neither references an original uid, originals keep their metadata; "
        "large-loop / direct-current pairs: the copied transmitter loops / current dipoles are exactly those "
        "referenced by the copied receivers. Non-trivial = pair linked from the transmitter/base/current side, or a "
        "copy of a copy, or an edit made through the partner and read after re-open. Distinct = program hash."
    )

    def enumerated(self, tier):
        progs = []
        fixed = [
            [{"op": "channels", "side": "B", "v": [1, 2]}, {"op": "reopen", "side": "A", "v": [1]}, {"op": "copy", "side": "A", "v": [1]}],
            [{"op": "unit", "side": "A", "v": [2]}, {"op": "copy_cross", "side": "B", "v": [1]}, {"op": "copy_of_copy", "side": "A", "v": [1]}],
            [{"op": "components", "side": "A", "v": [3]}, {"op": "copy_extent", "side": "A", "v": [2]}, {"op": "reopen", "side": "B", "v": [1]}],
            [{"op": "waveform", "side": "A", "v": [1, 2, 3]}, {"op": "copy", "side": "A", "v": [1]}, {"op": "edit_copy", "side": "A", "v": [0]},
             {"op": "edit_copy", "side": "A", "v": [1, 5, 6]}],
            [{"op": "reopen", "side": "A", "v": [2]}, {"op": "unit", "side": "B", "v": [1]}, {"op": "channels", "side": "A", "v": [3, 4]}],
            [{"op": "refused_link", "side": "A", "v": [1]}, {"op": "unit", "side": "A", "v": [3]}, {"op": "reopen", "side": "A", "v": [1]}],
            [{"op": "crs", "side": "A", "v": [3]}, {"op": "reopen", "side": "A", "v": [1]}, {"op": "crs", "side": "B", "v": [4]}],
            [{"op": "relink", "side": "A", "v": [1]}, {"op": "unit", "side": "B", "v": [2]}, {"op": "reopen", "side": "A", "v": [1]}],
            [{"op": "refused_metadata", "side": "A", "v": [1]}, {"op": "refused_metadata", "side": "B", "v": [1]},
             {"op": "reopen", "side": "A", "v": [1]}],
        ]
        for pair, direction, ops in itertools.product(PAIRS, ["A", "B"], fixed):
            for resolve in (True, False):
                progs.append({"pair": pair, "direction": direction, "n": 6, "ops": ops, "resolve_live": resolve})
        for pair, direction in itertools.product(PAIRS, ["A", "B"]):
            progs.append({"pair": pair, "direction": direction, "n": 6, "link": "creation", "resolve_live": False,
                          "ops": [{"op": "reopen", "side": "A", "v": [1]}]})
        return progs

    def strategy(self, tier):
        return st.fixed_dictionaries({"pair": st.sampled_from(sorted(PAIRS)), "direction": st.sampled_from(["A", "B"]),
                                      "n": st.integers(4, 8), "resolve_live": st.booleans(),
                                      "link": st.sampled_from(["assignment", "assignment", "creation"]),
                                      "ops": st.lists(op_strategy(), min_size=1, max_size=10)})

    # ------------------------------------------------------------------ helpers
    def build(self, ws, pair, n, link_at_creation=None):
        from geoh5py import objects

        a_cls, b_cls, family, _, _ = PAIRS[pair]
        xs = np.arange(float(n))
        verts = np.c_[xs, np.zeros(n), np.zeros(n)]
        if family == "large":
            a = getattr(objects, a_cls).create(ws, vertices=verts, name="A")
            loops, cells, count = [], [], 0
            for k in range(2):
                off = 10.0 * k
                loops.append(np.asarray([[-1.0, -1 + off, 0], [-1.0, 1 + off, 0], [1.0, 1 + off, 0], [1.0, -1 + off, 0]]))
                cells += [[count + i, count + i + 1] for i in range(3)] + [[count + 3, count]]
                count += 4
            b = getattr(objects, b_cls).create(ws, vertices=np.vstack(loops), cells=np.asarray(cells, dtype="uint32"), name="B")
            b.tx_id_property = np.repeat([1, 2], 4)
            a.tx_id_property = np.asarray([1 + (i * 2 // n) for i in range(n)])
        elif family == "dc":
            b = getattr(objects, b_cls).create(ws, vertices=verts + [0, 5, 0], name="B",
                                               parts=np.repeat(np.arange((n + 1) // 2), 2)[:n])
            b.add_default_ab_cell_id()
            n_dip = b.n_cells
            a = getattr(objects, a_cls).create(ws, vertices=verts, name="A")
            a.ab_cell_id = np.asarray([1 + (i % n_dip) for i in range(a.n_cells)], dtype="int32")
        elif family == "tipper":
            a = getattr(objects, a_cls).create(ws, vertices=verts, name="A")
            b = getattr(objects, b_cls).create(ws, vertices=verts[:1] + [0, 3, 0], name="B")
        elif link_at_creation == "A":
            # the link is given as a keyword of the creation (the entity is not on file yet when it is linked)
            b = getattr(objects, b_cls).create(ws, vertices=verts + [0, 0, 2], name="B")
            a = getattr(objects, a_cls).create(ws, vertices=verts, name="A", **{PAIRS[pair][3]: b})
        elif link_at_creation == "B":
            a = getattr(objects, a_cls).create(ws, vertices=verts, name="A")
            b = getattr(objects, b_cls).create(ws, vertices=verts + [0, 0, 2], name="B", **{PAIRS[pair][4]: a})
        else:
            a = getattr(objects, a_cls).create(ws, vertices=verts, name="A")
            b = getattr(objects, b_cls).create(ws, vertices=verts + [0, 0, 2], name="B")
        return a, b

    def raw_metadata(self, ws, entity):
        node = ws.geoh5[ws.name]["Objects"]["{" + str(entity.uid) + "}"]
        if "Metadata" not in node:
            return None
        raw = node["Metadata"][()]
        raw = raw[0] if isinstance(raw, np.ndarray) else raw
        return json.loads(raw.decode() if isinstance(raw, bytes) else raw)

    def ids_in(self, meta):
        found = set()

        def rec(v):
            if isinstance(v, dict):
                for x in v.values():
                    rec(x)
            elif isinstance(v, (list, tuple)):
                for x in v:
                    rec(x)
            elif isinstance(v, uuid.UUID):
                found.add(str(v))
            elif isinstance(v, str) and len(v) >= 36:
                try:
                    found.add(str(uuid.UUID(v.strip("{}"))))
                except ValueError:
                    pass

        rec(meta)
        return found

    def shared(self, meta, family):
        """The shared part of the metadata (comparable between the two sides)."""
        if meta is None:
            return None
        body = dict(meta.get("EM Dataset", meta)) if family != "dc" else dict(meta)
        # component groups are resolved by name on the entity that owns the data: not a shared parameter
        body.pop("Property groups", None)
        body.pop("Coordinate Reference System", None)  # belongs to one entity, not to the pair
        return json.loads(json.dumps(body, sort_keys=True, default=lambda o: "{" + str(o) + "}" if isinstance(o, uuid.UUID) else str(o)))

    def check_pair(self, res, ws, a, b, pair, where, opname, partners=True):
        """Both sides carry both ids (API and raw), shared fields agree, partners resolve."""
        _, _, family, a_to_b, b_to_a = PAIRS[pair]
        ids = {str(a.uid), str(b.uid)}
        for side, ent in (("A", a), ("B", b)):
            api = ent.metadata
            if not ids <= self.ids_in(api):
                res.fail(f"C20/ids-missing-api/{pair}/{opname}/{side}@{where}", f"{side}.metadata lacks one of {sorted(ids)}: {api!r:.300}")
                return False
            raw = self.raw_metadata(ws, ent)
            if raw is None or not ids <= self.ids_in(raw):
                res.fail(f"C20/ids-missing-file/{pair}/{opname}/{side}@{where}", f"stored Metadata of {side} lacks one of {sorted(ids)}: {raw!r:.300}")
                return False
        sa, sb = self.shared(a.metadata, family), self.shared(b.metadata, family)
        if sa != sb:
            keys = [k for k in sorted(set(sa) | set(sb)) if sa.get(k) != sb.get(k)] if isinstance(sa, dict) and isinstance(sb, dict) else ["?"]
            res.fail(f"C20/sides-disagree-api/{pair}/{opname}/{keys[0]}@{where}", f"A sees {sa.get(keys[0]) if isinstance(sa, dict) else sa!r:.200}, B sees {sb.get(keys[0]) if isinstance(sb, dict) else sb!r:.200}")
            return False
        ra, rb = self.shared(self.raw_metadata(ws, a), family), self.shared(self.raw_metadata(ws, b), family)
        norm = lambda d: json.loads(json.dumps(d, sort_keys=True).lower()) if d is not None else None  # noqa: E731
        if norm(ra) != norm(rb):
            keys = [k for k in sorted(set(ra) | set(rb)) if norm(ra).get(k.lower()) != norm(rb).get(k.lower())]
            res.fail(f"C20/sides-disagree-file/{pair}/{opname}/{keys[0] if keys else '?'}@{where}", f"stored A: {ra!r:.200} stored B: {rb!r:.200}")
            return False
        if norm(ra) != norm(self.strip_names(sa, a)):
            diff = [k for k in sorted(set(ra) | set(sa)) if norm(ra).get(k.lower()) != norm(self.strip_names(sa, a)).get(k.lower())]
            res.fail(f"C20/memory-differs-from-file/{pair}/{opname}/{diff[0] if diff else '?'}@{where}", f"API {sa!r:.250} stored {ra!r:.250}")
            return False
        if not partners:
            # (reading the partner attribute resolves and caches it: in this mode the program edits first)
            return True
        pa, pb = getattr(a, a_to_b, None), getattr(b, b_to_a, None)
        if pa is not b or pb is not a:
            res.fail(f"C20/partner-not-resolved/{pair}/{opname}/@{where}", f"A.{a_to_b} is {pa!r}, B.{b_to_a} is {pb!r}")
            return False
        return True

    def strip_names(self, shared, ent):
        """API metadata lists property groups by name, the file by uid: compare the rest."""
        return shared

    # ------------------------------------------------------------------ case
    def run_case(self, p):
        from geoh5py.workspace import Workspace

        res = CaseResult()
        self.components_added = False
        pair = p["pair"]
        a_cls, b_cls, family, a_to_b, b_to_a = PAIRS[pair]
        path, path2 = env.new_path("c20"), env.new_path("c20b")
        ws = Workspace.create(path)
        ws2 = None
        nontrivial = p["direction"] == "B"
        try:
            at_creation = p.get("link") == "creation" and family not in ("large", "dc", "tipper")
            try:
                a, b = self.build(ws, pair, p["n"], p["direction"] if at_creation else None)
            except Exception as exc:
                res.fail(f"C20/build-raises/{pair}/{'linked-at-creation' if at_creation else ''}/{type(exc).__name__}",
                         f"{type(exc).__name__}: {exc}"[:300])
                return res
            try:
                if at_creation:
                    res.label("linked-at-creation")
                elif p["direction"] == "A":
                    setattr(a, a_to_b, b)
                else:
                    setattr(b, b_to_a, a)
            except Exception as exc:
                if family == "tipper" and p["direction"] == "B":
                    pass
                res.fail(f"C20/link-raises/{pair}/{p['direction']}/{type(exc).__name__}", f"{type(exc).__name__}: {exc}"[:300])
                return res
            res.label(f"pair:{pair}", f"direction:{p['direction']}")
            live_partners = bool(p.get("resolve_live", True))
            res.label("partners-resolved-live" if live_partners else "partners-resolved-at-reopen-only")
            if not self.check_pair(res, ws, a, b, pair, "live", "link", partners=live_partners):
                return res
            uid_a, uid_b = a.uid, b.uid
            copies = []  # (copy of A-side or B-side, which side)
            edited_via_partner = False
            for step, op in enumerate(p["ops"]):
                name = op["op"]
                target, other = (a, b) if op["side"] == "A" else (b, a)
                done = False
                try:
                    done = self.apply(name, op, target, family, ws, res)
                except Exception as exc:
                    res.fail(f"C20/op-raises/{pair}/{name}/{type(exc).__name__}", f"step {step} {op}: {type(exc).__name__}: {exc}"[:300])
                    return res
                if name == "reopen":
                    ws.close()
                    del a, b, target, other
                    ws = Workspace(path)
                    a, b = ws.get_entity(uid_a)[0], ws.get_entity(uid_b)[0]
                    if a is None or b is None:
                        res.fail(f"C20/lost-on-reopen/{pair}/reopen/", "one side is missing after re-open")
                        return res
                    # without live resolution the next edit comes BEFORE any partner attribute is read in this session
                    if live_partners and not self.check_pair(res, ws, a, b, pair, "reopened", "reopen"):
                        return res
                    if edited_via_partner:
                        nontrivial = True
                    copies = []
                    continue
                if name == "refused_link":
                    # a link that must be refused (wrong class / incompatible station count) changes nothing
                    from geoh5py.objects import Points

                    wrong = Points.create(ws, vertices=np.zeros((2, 3)), name="wrong")
                    if family == "tipper" and op["side"] == "A":
                        from geoh5py.objects import TipperBaseStations

                        wrong = TipperBaseStations.create(ws, vertices=np.zeros((2, 3)), name="other")  # 2 stations: incompatible
                    attr = a_to_b if op["side"] == "A" else b_to_a
                    try:
                        setattr(target, attr, wrong)
                        refused = False
                    except Exception:
                        refused = True
                    if not refused:
                        res.label("refused_link:accepted")  # nothing documented forbids it for this pair: not judged
                        return res
                    res.label("op:refused_link")
                    if not self.check_pair(res, ws, a, b, pair, "live", "refused_link", partners=True):
                        return res
                    continue
                if name == "relink":
                    # the entity, already linked (and its partner resolved), is linked to ANOTHER partner of the same
                    # class: from then on the new pair has to satisfy everything the statement says about a pair
                    if family not in ("em", "tipper"):
                        continue  # large-loop / direct-current pairs need matching id properties: not generated
                    try:
                        new_a, new_b = self.build(ws, pair, p["n"])
                    except Exception:
                        continue
                    fresh, spare = (new_b, new_a) if op["side"] == "A" else (new_a, new_b)
                    ws.remove_entity(spare)
                    del spare, new_a, new_b
                    attr = a_to_b if op["side"] == "A" else b_to_a
                    try:
                        setattr(target, attr, fresh)
                    except Exception as exc:
                        res.label(f"relink:refused:{type(exc).__name__}")
                        return res
                    res.label("op:relink")
                    if op["side"] == "A":
                        b, uid_b = fresh, fresh.uid
                    else:
                        a, uid_a = fresh, fresh.uid
                    del fresh
                    if not self.check_pair(res, ws, a, b, pair, "live", "relink", partners=True):
                        return res
                    continue
                if name == "refused_metadata":
                    # metadata naming a partner that is not in the workspace must be refused and change nothing
                    if family != "dc":
                        continue
                    bogus = uuid.UUID(int=987654321 + op["v"][0], version=4)
                    try:
                        target.metadata = {"Current Electrodes": bogus, "Potential Electrodes": bogus}
                        refused = False
                    except Exception:
                        refused = True
                    if not refused:
                        res.label("refused_metadata:accepted")
                        return res
                    res.label("op:refused_metadata")
                    if not self.check_pair(res, ws, a, b, pair, "live", "refused_metadata", partners=True):
                        return res
                    continue
                if name == "edit_copy":
                    # an edit of a shared parameter on a COPY must not show through on the originals
                    if not copies:
                        continue
                    cp = copies[-1][0]
                    before_a = json.dumps(self.shared(a.metadata, family), sort_keys=True)
                    sub = ["timing_mark", "waveform", "channels", "unit", "loop_radius"][op["v"][0] % 5]
                    try:
                        done_edit = self.apply(sub, op, cp, family, cp.workspace, res)
                    except Exception as exc:
                        res.fail(f"C20/op-raises/{pair}/edit_copy:{sub}/{type(exc).__name__}", f"step {step}: {type(exc).__name__}: {exc}"[:300])
                        return res
                    if done_edit:
                        res.label("op:edit_copy:" + sub)
                        after_a = json.dumps(self.shared(a.metadata, family), sort_keys=True)
                        if after_a != before_a:
                            res.fail(f"C20/edit-of-copy-shows-in-original/{pair}/{sub}/", f"original metadata {before_a[:200]} -> {after_a[:200]}")
                            return res
                    continue
                if name in ("copy", "copy_cross", "copy_of_copy", "copy_extent"):
                    src = target
                    if name == "copy_of_copy":
                        if not copies:
                            continue
                        src = copies[-1][0]
                        nontrivial = True
                    if name == "copy_cross" and ws2 is None:
                        ws2 = Workspace.create(path2)
                    dest_ws = ws2 if name == "copy_cross" else src.workspace
                    before_a = json.dumps(self.shared(a.metadata, family), sort_keys=True)
                    try:
                        if name == "copy_extent":
                            ext = np.asarray([[-0.5, -20.0], [p["n"] / 2.0 + 0.25, 20.0]])
                            new = src.copy_from_extent(ext, parent=dest_ws.root)
                        else:
                            new = src.copy(parent=dest_ws.root)
                    except Exception as exc:
                        res.fail(f"C20/copy-raises/{pair}/{name}/{type(exc).__name__}", f"step {step} side {op['side']}: {type(exc).__name__}: {exc}"[:300])
                        return res
                    if new is None:
                        continue
                    side_is_a = type(src).__name__ == a_cls
                    attr = a_to_b if side_is_a else b_to_a
                    back = b_to_a if side_is_a else a_to_b
                    partner = getattr(new, attr, None)
                    if partner is None:
                        res.fail(f"C20/copy-without-partner/{pair}/{name}/{'A' if side_is_a else 'B'}", f"copy of the {type(src).__name__} has no {attr}")
                        return res
                    same_ws = dest_ws is src.workspace
                    prior = [a, b] + [c for c, _ in copies] + [
                        getattr(c, (a_to_b if s_ else b_to_a), None) for c, s_ in copies]
                    if any(partner is e for e in prior if e is not None) or (
                            same_ws and str(partner.uid) in {str(e.uid) for e in prior if e is not None and e.workspace is dest_ws}):
                        res.fail(f"C20/copy-linked-to-original/{pair}/{name}/", f"the copy's {attr} is {partner.uid}, an existing entity")
                        return res
                    if getattr(partner, back, None) is not new:
                        res.fail(f"C20/copy-partner-not-linked-back/{pair}/{name}/", f"partner.{back} is {getattr(partner, back, None)!r}, not the copy")
                        return res
                    meta_ids = self.ids_in(new.metadata) | self.ids_in(partner.metadata)
                    stale = meta_ids - {str(new.uid), str(partner.uid)}
                    stale = {u for u in stale if u in {str(e.uid) for e in prior if e is not None}}
                    if stale:
                        res.fail(f"C20/copy-references-original/{pair}/{name}/", f"metadata of the copies reference original uid(s) {sorted(stale)}")
                        return res
                    if not self.check_pair(res, dest_ws, new if side_is_a else partner, partner if side_is_a else new, pair, "copy", name):
                        return res
                    if json.dumps(self.shared(a.metadata, family), sort_keys=True) != before_a:
                        res.fail(f"C20/copy-disturbs-original/{pair}/{name}/", "metadata of the original changed by the copy")
                        return res
                    if family in ("large", "dc"):
                        if not self.check_selection(res, new if side_is_a else partner, partner if side_is_a else new, family, pair, name):
                            return res
                    copies.append((new, side_is_a))
                    res.label("op:" + name)
                    continue
                if done:
                    res.label("op:" + name)
                    if op["side"] == "B":
                        edited_via_partner = True
                    if not self.check_pair(res, ws, a, b, pair, "live", name, partners=live_partners):
                        return res
            # final re-open
            ws.close()
            ws = Workspace(path, mode="r")
            a, b = ws.get_entity(uid_a)[0], ws.get_entity(uid_b)[0]
            if a is None or b is None:
                res.fail(f"C20/lost-on-reopen/{pair}/final/", "one side is missing after re-open")
                return res
            if not self.check_pair(res, ws, a, b, pair, "reopened", "final"):
                return res
            if edited_via_partner:
                nontrivial = True
            res.nontrivial = nontrivial
            return res
        finally:
            env.close_quietly(ws, ws2)

    def check_selection(self, res, rx, tx, family, pair, opname):
        """Large loop / DC: the copied transmitter side holds exactly the loops / dipoles the receivers refer to."""
        try:
            if family == "large":
                r_ids = set(np.unique(rx.tx_id_property.values).tolist()) if rx.tx_id_property is not None else None
                t_ids = set(np.unique(tx.tx_id_property.values).tolist()) if tx.tx_id_property is not None else None
            else:
                r_ids = set(np.unique(rx.ab_cell_id.values).tolist()) if rx.ab_cell_id is not None else None
                t_ids = set(np.unique(tx.ab_cell_id.values).tolist()) if tx.ab_cell_id is not None else None
        except Exception as exc:
            res.fail(f"C20/selection-raises/{pair}/{opname}/{type(exc).__name__}", f"{type(exc).__name__}: {exc}"[:300])
            return False
        if r_ids is None or t_ids is None:
            res.fail(f"C20/copy-lost-id-property/{pair}/{opname}/", f"receiver ids {r_ids}, transmitter ids {t_ids}")
            return False
        r_ids.discard(0)
        t_ids.discard(0)
        if r_ids != t_ids:
            res.fail(f"C20/copied-loops-differ/{pair}/{opname}/", f"copied receivers refer to {sorted(r_ids)}, copied transmitters hold {sorted(t_ids)}")
            return False
        return True

    def apply(self, name, op, target, family, ws, res):
        v = op["v"]
        cls = type(target).__name__
        em = family != "dc"
        if name == "reopen":
            return True
        if name == "crs":
            # a coordinate reference system adds a nested block to the metadata next to the link identifiers
            try:
                target.coordinate_reference_system = {"Code": f"EPSG:{26900 + v[0]}", "Name": "n" + str(v[0])}
            except Exception:
                return False
            return True
        if not em:
            return False
        if name == "channels":
            # the channel count is tied to the component groups of BOTH entities (the channels are shared): once either
            # side carries components the channels stay as they are
            if target.components or getattr(self, "components_added", False):
                return False
            target.channels = [float(x) for x in sorted(set(v))]
            return True
        if name == "unit":
            units = target.default_units
            target.unit = units[v[0] % len(units)]
            return True
        if name == "input_type":
            types = target.default_input_types
            if not types:
                return False
            target.input_type = types[v[0] % len(types)]
            return True
        if name == "loop_radius":
            if not hasattr(type(target), "loop_radius"):
                return False
            target.loop_radius = float(v[0])
            return True
        if name in ("offset_value", "offset_property", "angle", "bearing"):
            if not hasattr(type(target), "crossline_offset"):
                return False
            if name == "offset_value":
                setattr(target, ["crossline_offset", "inline_offset", "vertical_offset"][v[0] % 3], float(v[-1]))
            elif name == "angle":
                setattr(target, ["pitch", "roll", "yaw"][v[0] % 3], float(v[-1]) * 5.0)
            elif name == "bearing":
                target.relative_to_bearing = bool(v[0] % 2)
            else:
                data = target.add_data({f"off{len(target.children)}": {"values": np.ones(target.n_vertices) * v[0]}})
                setattr(target, ["crossline_offset", "inline_offset", "vertical_offset"][v[0] % 3], data.uid)
            return True
        if name == "waveform":
            if "TEM" not in cls:
                return False
            target.waveform = np.c_[np.arange(len(v), dtype=float), np.asarray(v, dtype=float)]
            return True
        if name == "timing_mark":
            if "TEM" not in cls:
                return False
            target.timing_mark = float(v[0]) / 10.0
            return True
        if name == "components":
            # component groups live on one entity while their names are listed in the shared metadata: one side only
            if not target.channels or target.components or getattr(self, "components_added", False):
                return False
            self.components_added = True
            block = {f"ch{i}": {"values": np.ones(target.n_vertices) * c} for i, c in enumerate(target.channels)}
            target.add_components_data({f"comp{len(target.property_groups or [])}": block})
            return True
        return False


CHECK = C20()
