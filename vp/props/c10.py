"""C10 — read-only workspaces never change the file."""
import json
import shutil
import uuid

import numpy as np
from hypothesis import strategies as st

from .. import env, factory as F
from ..apisnap import apisnap, entity_attrs
from ..core import CaseResult, Check
from ..engines import tree
from ..engines import values as V
from ..rawsnap import file_sha, node_digests, rawsnap

CALLS = ["snap", "lazy", "set_name", "set_flag", "set_values", "set_vertices", "set_metadata", "set_attr", "set_type",
         "create_group", "create_object", "add_data", "add_file", "add_comment", "remove_ws", "remove_parent",
         "copy_same", "copy_other", "pg_add", "pg_remove", "move", "close_open", "fetch_active", "fetch_active_closed",
         "input_file", "monitored_copy", "path2workspace", "header", "helper_view", "rw_detour"]
WRITERS = {"set_name", "set_flag", "set_values", "set_vertices", "set_metadata", "set_attr", "set_type", "create_group",
           "create_object", "add_data", "add_file", "add_comment", "remove_ws", "remove_parent", "copy_same", "pg_add",
           "pg_remove", "move", "header"}


@st.composite
def program_strategy(draw, max_calls=25):
    build = draw(tree.program_strategy({
        "max_ops": 12, "ws2": False,
        "weights": {**tree.DEFAULT_CFG["weights"], "reopen": 0, "gc": 0, "hold": 0, "release": 0, "observe": 0,
                    "remove": 1, "copy": 2},
        "object_classes": F.CORE_OBJECT_CLASSES + ["IntegratorPoints", "MTReceivers", "PotentialElectrode"],
    }))
    build["observe"] = "reopen"
    build["allow_known"] = False
    call = st.fixed_dictionaries({"call": st.sampled_from(CALLS), "who": st.integers(0, 40), "to": st.integers(0, 40),
                                  "seed": st.lists(st.integers(-9, 9), min_size=1, max_size=5)})
    calls = draw(st.lists(call, min_size=1, max_size=max_calls))
    # a file without the optional Root link is a valid geoh5 file too (reader rebuilds the root in memory)
    via_open = draw(st.integers(0, 3)) == 0
    if via_open:
        # constructive: the first call renames the drillhole of the drillhole group (who=-2: the extras are appended
        # as group, hole, log), an assignment that is only staged by the group
        calls = [{"call": draw(st.sampled_from(["set_name", "set_flag"])), "who": -2, "to": 0, "seed": [1]}] + calls
    plain_curve = draw(st.booleans())
    if plain_curve and not via_open:
        # constructive: the first call looks at the curve stored without segments (who=-1: appended last)
        calls = [{"call": draw(st.sampled_from(["snap", "lazy", "copy_other", "monitored_copy"])), "who": -1, "to": 0,
                  "seed": [1]}] + calls
    return {"build": build, "ops": calls, "drop_root": draw(st.integers(0, 3)) == 0,
            # a drillhole group with one hole and one depth log (concatenated storage) is added to the file
            "with_dh": draw(st.booleans()) or via_open,
            "with_plain_curve": plain_curve,
            # the read-only session is opened on a Workspace object that was constructed writable and closed
            "ro_via_open": via_open}


class C10(Check):
    pid = "C10"
    level = "exploration"
    budgets = {"quick": (45, 16), "thorough": (1200, 16)}
    ops_key = "ops"
    rule = (
        "A file is built by a generated tree program, copied to a twin, and opened with mode='r'; the twin is opened "
        "r+. A second generated program of 1-25 calls is applied to both: whole-tree getter sweep (incl. lazy getters), "
        "setters (name, flags, values, vertices, metadata, any reflectively discovered attribute with a value domain, "
        "type attributes, project header), creations (group, object, data, file, comment), removals through the "
        "workspace / parent, copies inside the workspace and into another writable workspace, property-group edits, "
        "re-parenting, close/open(), fetch_active_workspace (open and closed), InputFile.read_ui_json on a ui.json "
        "pointing at the file, monitored_directory_copy, path2workspace. After every call: SHA-256 of the read-only "
        "file is unchanged; whenever the workspace is open its handle mode is 'r'; differential must-raise: if the "
        "same call changed the twin's logical content (per-node digests), the read-only call must have raised. "
        "Non-trivial = program with >=1 call that changed the twin and >=1 lazy getter / getter sweep, on a file with "
        ">=2 entities. Distinct = program hash."
    )
    assumptions = ["an explicit user request open(mode='r+') is not 'silent': it is generated as a detour (writable "
                   "session closed without edits, bytes re-baselined), after which a plain open() must be read-only again",
                   "in-memory state of the read-only workspace after a refused write is not constrained"]

    def strategy(self, tier):
        return program_strategy(25 if tier == "quick" else 40)

    # ------------------------------------------------------------------
    def run_case(self, program):
        from geoh5py.workspace import Workspace

        res = CaseResult()
        build_res = CaseResult()
        run, stats = tree.run_tree(program["build"], build_res, set())
        world = run.worlds[0] if run.worlds else None
        if world is None or not world.path.exists():
            res.label("build-failed")
            return res
        path = world.path
        extra_uids = {}
        if program.get("with_dh"):
            from geoh5py.groups import DrillholeGroup
            from geoh5py.objects import Drillhole

            with Workspace(path) as wsb:
                grp = DrillholeGroup.create(wsb, name="ro_dh_group")
                hole = Drillhole.create(wsb, parent=grp, name="ro_hole", collar=[0.0, 0.0, 0.0],
                                        surveys=np.asarray([[0.0, 0.0, -90.0], [20.0, 10.0, -80.0]]))
                log = hole.add_data({"ro_log": {"depth": np.asarray([1.0, 2.0, 3.0]), "values": np.asarray([4.0, 5.0, 6.0])}})
                extra_uids = {str(grp.uid): "group", str(hole.uid): "object", str(log.uid): "data"}
                del grp, hole, log
            res.label("file:with-drillhole-group")
        if program.get("with_plain_curve"):
            from geoh5py.objects import Curve

            # a curve stored with its vertices only: its segments were never asked for, so the file holds none
            with Workspace(path) as wsb:
                curve = Curve.create(wsb, name="ro_curve", vertices=np.asarray([[0.0, 0.0, 0.0], [1.0, 0.0, 0.0],
                                                                                  [2.0, 1.0, 0.0], [3.0, 1.0, 1.0]]))
                extra_uids[str(curve.uid)] = "object"
                curve_uid = curve.uid
                del curve
            # (geoh5py stores the implied segments at creation; other software leaves them out: the reader derives them)
            import h5py

            with h5py.File(path, "r+") as h5:
                node = h5[list(h5)[0]]["Objects"]["{" + str(curve_uid) + "}"]
                if "Cells" in node:
                    del node["Cells"]
            res.label("file:with-curve-without-stored-segments")
        # the user's own Workspace object on that file: built with the default mode, closed again
        # (created while the file is complete, so that closing it writes nothing)
        self.third = Workspace(path)
        self.third.close()
        if program.get("drop_root"):
            import h5py

            with h5py.File(path, "r+") as h5:
                proj = h5[list(h5)[0]]
                if "Root" in proj:
                    del proj["Root"]
            res.label("file:no-root-link")
        twin = env.new_path("twin")
        shutil.copy(path, twin)
        uids = [u for u in world.nodes if u != world.root] + list(extra_uids)
        kinds = {**world.kind, **extra_uids}
        sha0 = file_sha(path)
        ro = tw = other = None
        try:
            via_open = self.via_open = bool(program.get("ro_via_open"))
            try:
                if via_open:
                    ro = Workspace(path)
                    ro.close()
                    sha0 = file_sha(path)  # (closing the writable session may have re-saved the file)
                    shutil.copy(path, twin)
                    ro.open(mode="r")
                    res.label("read-only-through-open(mode=r)")
                else:
                    ro = Workspace(path, mode="r")
            except Exception as exc:
                res.fail(f"C10/readonly-open-raises/open//{type(exc).__name__}", f"Workspace(path, mode='r') raised {type(exc).__name__}: {exc}"[:400])
                return res
            tw = Workspace(twin, mode="r+")
            if file_sha(path) != sha0:
                res.fail("C10/bytes-changed/open//", "opening read-only changed the file bytes")
                return res
            changed_twin = 0
            getters = 0
            for step, call in enumerate(program["ops"]):
                name = call["call"]
                if name in ("snap", "lazy"):
                    getters += 1
                d0 = node_digests(rawsnap(tw.geoh5)) if tw._geoh5 else None
                self.live_change = False
                out_tw = self.do_call(tw, call, uids, kinds, twin, writable=True)
                tw_live_change = self.live_change
                if not tw._geoh5:
                    tw.open()
                d1 = node_digests(rawsnap(tw.geoh5))
                twin_changed = d0 is not None and d0 != d1
                out_ro = self.do_call(ro, call, uids, kinds, path, writable=False)
                res.label(f"call:{name}")
                if out_ro == "skip" or out_tw == "skip":
                    res.count("skipped_calls")
                    continue
                if out_ro in ("ViewNotReadOnly", "ViewAcceptedWrite", "LeftOpen", "OpenedWritable"):
                    res.fail(f"C10/helper-not-read-only/{name}//{out_ro}", f"step {step}: {call}: {out_ro}")
                    return res
                if name == "rw_detour" and out_ro == "ok":
                    sha0 = file_sha(path)  # the explicit writable session may have re-saved the file
                    res.label("explicit-writable-detour")
                sha1 = file_sha(path)
                if sha1 != sha0:
                    res.fail(f"C10/bytes-changed/{name}//", f"step {step}: call {call} changed the bytes of the read-only file (raised={out_ro})")
                    return res
                if ro._geoh5:
                    mode = ro.geoh5.mode
                    if mode != "r":
                        res.fail(f"C10/mode-upgraded/{name}//{mode}", f"step {step}: after {call} the read-only workspace handle is in mode {mode!r}")
                        return res
                else:
                    try:
                        ro.open(mode="r") if via_open else ro.open()
                    except Exception as exc:
                        res.fail(f"C10/reopen-raises/{name}//{type(exc).__name__}", f"step {step}: open() after {call}: {exc}"[:300])
                        return res
                    if ro.geoh5.mode != "r":
                        res.fail(f"C10/mode-upgraded/{name}//open", f"step {step}: open() re-opened a read-only workspace in mode {ro.geoh5.mode!r}")
                        return res
                if tw_live_change and out_tw == "ok" and out_ro == "ok":
                    # the assignment took effect on the writable twin (stored at once or staged for the close, as
                    # for drillholes of a drillhole group): on the read-only workspace it has to fail
                    res.fail(f"C10/write-call-did-not-raise/{name}//staged", f"step {step}: {call} changed the entity on the writable twin but returned normally on the read-only workspace")
                    return res
                if twin_changed:
                    changed_twin += 1
                    if out_ro == "ok" and name in WRITERS:
                        res.fail(f"C10/write-call-did-not-raise/{name}//", f"step {step}: {call} changed the writable twin but returned normally on the read-only workspace")
                        return res
                    if out_ro != "ok":
                        res.label("refused:" + out_ro)
            res.nontrivial = changed_twin >= 1 and getters >= 1 and len(uids) >= 2
            res.count("twin_changing_calls", changed_twin)
            return res
        finally:
            env.close_quietly(ro, tw, getattr(self, "third", None))

    # ------------------------------------------------------------------ calls
    def do_call(self, ws, call, uids, kinds, path, writable):
        """Returns 'ok', 'skip' or the exception class name."""
        from geoh5py.groups import ContainerGroup
        from geoh5py.objects import Points
        from geoh5py.shared.utils import fetch_active_workspace
        from geoh5py.ui_json import InputFile
        from geoh5py.ui_json.utils import monitored_directory_copy, path2workspace
        from geoh5py.workspace import Workspace

        name, seed = call["call"], call["seed"]

        def ent(index, want=None):
            cands = [u for u in uids if want is None or kinds.get(u) in want]
            if not cands:
                return None
            found = ws.get_entity(uuid.UUID(cands[index % len(cands)]))[0]
            if "Concatenat" in type(found).__name__ and name not in ("lazy", "set_name", "set_flag", "set_values", "set_metadata"):
                # drillholes of a drillhole group: only attribute / value assignments are exercised (files, comments
                # and metadata have no place in the concatenated storage - see DESIGN.md, observations)
                return None
            return found

        try:
            explicit_r = getattr(self, "via_open", False) and not writable  # this object's own default mode is r+
            if not ws._geoh5 and name not in ("fetch_active_closed", "close_open"):
                ws.open(mode="r") if explicit_r else ws.open()
            if name == "snap":
                apisnap(ws)
            elif name == "lazy":
                e = ent(call["who"], ("object", "group"))
                if e is None:
                    return "skip"
                for attr in ("cells", "parts", "metadata", "centroids", "extent", "visual_parameters", "comments",
                             "vertices", "locations", "n_cells", "property_groups", "current_line_id", "octree_cells"):
                    if hasattr(type(e), attr):
                        getattr(e, attr)
                e.entity_type.name  # noqa: B018
            elif name == "set_name":
                e = ent(call["who"])
                if e is None:
                    return "skip"
                e.name = "ro_" + str(seed[0])
                self.live_change = e.name == "ro_" + str(seed[0])
            elif name == "set_flag":
                e = ent(call["who"])
                if e is None:
                    return "skip"
                flag = tree.FLAGS[seed[0] % len(tree.FLAGS)]
                before = getattr(e, flag)
                setattr(e, flag, not before)
                self.live_change = getattr(e, flag) != before
            elif name == "set_values":
                e = ent(call["who"], ("data",))
                if e is None or not isinstance(getattr(e, "values", None), np.ndarray) or e.values.dtype.kind not in "fi":
                    return "skip"
                e.values = np.asarray(e.values) + 1
            elif name == "set_vertices":
                e = ent(call["who"], ("object",))
                if e is None or getattr(e, "vertices", None) is None or type(e).__name__ in ("Drillhole", "GeoImage"):
                    return "skip"
                e.vertices = np.asarray(e.vertices) + 0.5
            elif name == "set_metadata":
                e = ent(call["who"], ("object", "group"))
                if e is None or "survey" in type(e).__module__:
                    return "skip"
                e.metadata = {"ro": seed[0]}
            elif name == "set_attr":
                e = ent(call["who"], ("object", "group", "data"))
                if e is None:
                    return "skip"
                attrs = [a for a in entity_attrs(type(e)) if a not in V.EXCLUDED and V.has_setter(type(e), a)]
                if not attrs:
                    return "skip"
                attr = attrs[call["to"] % len(attrs)]
                owner = {"object": "object", "group": "group", "data": "data"}[kinds[str(e.uid)]]
                cname = type(e).__name__
                value, _ = V.make_value(owner, cname, attr, seed, e)
                if value is None:
                    return "skip"
                setattr(e, attr, value)
            elif name == "set_type":
                e = ent(call["who"])
                if e is None:
                    return "skip"
                e.entity_type.description = "ro " + str(seed[0])
            elif name == "header":
                ws.distance_unit = "feet" + str(seed[0])
            elif name == "create_group":
                ContainerGroup.create(ws, name="ro_group")
            elif name == "create_object":
                Points.create(ws, name="ro_points", vertices=np.zeros((2, 3)))
            elif name == "add_data":
                e = ent(call["who"], ("object",))
                if e is None or type(e).__name__ == "Drillhole":
                    return "skip"
                e.add_data({"ro_data": {"values": np.asarray([1.5]), "association": "OBJECT"}})
            elif name == "add_file":
                e = ent(call["who"], ("object", "group"))
                if e is None:
                    return "skip"
                e.add_file(b"abc", name="ro.dat")
            elif name == "add_comment":
                e = ent(call["who"], ("object", "group"))
                if e is None:
                    return "skip"
                e.add_comment("ro comment", author="vp")
            elif name == "remove_ws":
                e = ent(call["who"])
                if e is None:
                    return "skip"
                ws.remove_entity(e)
            elif name == "remove_parent":
                e = ent(call["who"])
                if e is None or e.parent is None:
                    return "skip"
                e.parent.remove_children([e])
            elif name == "copy_same":
                e = ent(call["who"], ("object", "group"))
                if e is None:
                    return "skip"
                e.copy()
            elif name == "copy_other":
                e = ent(call["who"], ("object", "group"))
                if e is None:
                    return "skip"
                with Workspace.create(env.new_path("other")) as other:
                    e.copy(parent=other)
            elif name == "pg_add":
                e = ent(call["who"], ("object",))
                if e is None:
                    return "skip"
                kids = [c for c in e.children if hasattr(c, "association") and c.association.name in ("VERTEX", "CELL")]
                if not kids:
                    return "skip"
                e.add_data_to_group([kids[seed[0] % len(kids)]], "ro_pg")
            elif name == "pg_remove":
                pgs = ws.property_groups
                if not pgs:
                    return "skip"
                ws.remove_entity(pgs[call["who"] % len(pgs)])
            elif name == "move":
                e = ent(call["who"], ("object", "group"))
                g = ent(call["to"], ("group",))
                if e is None or g is None or g is e or e.parent is g:
                    return "skip"
                node = g
                while node is not None and getattr(node, "parent", None) is not None and node is not node.parent:
                    if node is e:
                        return "skip"
                    node = node.parent
                e.parent = g
            elif name == "close_open":
                ws.close()
                ws.open(mode="r") if explicit_r else ws.open()
            elif name == "rw_detour" and getattr(self, "via_open", False):
                return "skip"
            elif name == "rw_detour":
                # an EXPLICIT request for a writable session (the user's right), closed again without any edit; the
                # workspace was built with mode 'r': its next plain open() has to be read-only again
                if seed[0] % 3 != 2:
                    ws.close()  # (seed % 3 == 2: the writable block is asked for while the read-only session is open)
                if seed[0] % 3 == 1:
                    ws.open(mode="r+")
                    ws.close()
                else:
                    with fetch_active_workspace(ws, mode="r+"):
                        pass
                    if ws._geoh5 and seed[0] % 3 != 2:
                        ws.close()
            elif name == "fetch_active":
                with fetch_active_workspace(ws, "r") as w:
                    len(w.objects)
            elif name == "fetch_active_closed" and explicit_r:
                return "skip"  # (a closed object built writable opens writable by default: the user's own choice)
            elif name == "fetch_active_closed":
                ws.close()
                with fetch_active_workspace(ws) as w:
                    len(w.objects)
            elif name == "helper_view":
                if writable:
                    return "ok"
                ws.close()
                third = self.third  # built with the default mode and closed
                try:
                    with fetch_active_workspace(third, "r") as view:  # a read-only view is requested
                        mode = view.geoh5.mode
                        if mode != "r":
                            return "ViewNotReadOnly"
                        try:
                            ContainerGroup.create(view, name="through_view")
                            return "ViewAcceptedWrite"
                        except Exception:
                            pass
                finally:
                    env.close_quietly(third)
            elif name == "path2workspace":
                if writable:
                    return "ok"
                ws.close()
                out = path2workspace(str(path))
                if out._geoh5:
                    return "LeftOpen"
            elif name == "input_file":
                if writable:
                    return "ok"
                objs = [u for u in uids if kinds.get(u) == "object"]
                ws.close()
                ui = {"title": "t", "geoh5": str(path), "run_command": "x", "run_command_boolean": False,
                      "monitoring_directory": "", "conda_environment": "", "conda_environment_boolean": False,
                      "workspace": None}
                if objs:
                    ui["obj"] = {"label": "o", "meshType": [], "value": "{" + objs[seed[0] % len(objs)] + "}"}
                folder = env.new_dir("ui")
                (folder / "in.ui.json").write_text(json.dumps(ui))
                ifile = InputFile.read_ui_json(folder / "in.ui.json", validate=False)
                _ = ifile.data
                if ifile.geoh5 is not None and ifile.geoh5._geoh5 and ifile.geoh5.geoh5.mode != "r":
                    return "OpenedWritable"
                if ifile.geoh5 is not None:
                    ifile.geoh5.close()
            elif name == "monitored_copy":
                if writable:
                    return "ok"
                e = ent(call["who"], ("object", "group"))
                if e is None:
                    return "skip"
                monitored_directory_copy(str(env.new_dir("mon")), e)
            return "ok"
        except Exception as exc:
            return type(exc).__name__


CHECK = C10()
