"""C15 — ui.json validation accepts exactly the valid values, statelessly."""
from hypothesis import strategies as st

from ..core import CaseResult, Check
from ..engines import uijson


def _lift_guards(program):
    from ..core import phash

    if isinstance(program, dict) and not program.get("allow_known") and int(phash(program), 16) % 2 == 0:
        return {**program, "allow_known": True}
    return program


class C15(Check):
    pid = "C15"
    level = "exploration"
    budgets = {"quick": (500, 16), "thorough": (11000, 16)}
    ops_key = "calls"
    exhaustive_note = (
        "switch table: form kind {float, choice} x optional {absent,T,F} x enabled {absent,T,F} x group "
        "{none, member without owner, owner of groupOptional T/F, member of a group whose owner has groupOptional "
        "T/F and enabled T/F/absent} x dependency {none, bool driver T/F, bool driver T/F with an explicit optional:false, optional driver enabled T/F/absent} x "
        "dependencyType {absent, enabled, disabled} = 3960 rows, each crossed with value {None, valid, invalid} "
        "on InputValidation.validate and validate_data; plus the grid form kind (13) x value case x API "
        "{construction, validate_data, data setter, set_data_value} x identifier presentation {UUID, entity, text}"
    )
    rule = (
        "(a) every row of the switch table (enumerated, exhaustive): verdict for None / a valid / an invalid "
        "value must equal the decision table written from params.rst and the requires_value docstring; rows "
        "the documentation leaves open (disabled without a checkbox of its own) are counted, not judged. "
        "(b) generated (form kind, value, API) triples whose verdict is known by construction (right/wrong "
        "type, in/out of choiceList, well/ill-formed and known/unknown identifiers, child / not child of the "
        "parent object, entity of another workspace, property group of the declared / another type) through "
        "construction, validate_data, the data setter and set_data_value; both directions; a refused call must "
        "leave data, ui_json and validations unchanged. (c) histories of 2-8 calls on ONE EnforcerPool, "
        "Parameter, FormParameter, validator instance, InputValidation, InputFile or UIJson: the verdict of "
        "every call must equal the verdict of the same call on a fresh object in the same form state, a "
        "refused call must leave the stored value / form / rule table unchanged. Non-trivial = table row with "
        ">=2 switch members; pair that produced a verdict; history with a refused call followed by a call that "
        "a fresh object accepts. Distinct = program hash."
    )
    assumptions = [
        "a wrong type is a scalar of another JSON type; list-for-scalar, bool-for-int and int-for-float are "
        "counted as unspecified (TypeValidator is documented element-wise; JSON does not separate 1 from 1.0)",
        "identifiers given as text outside a ui.json dictionary (data setter, set_data_value) are counted as "
        "unspecified when they should be refused: only the ui.json path converts text to identifiers",
        "plain forms (bool, integer, float, string, file) declare their type through the stored value, so a "
        "wrong type cannot be expressed through construction",
        "fresh objects of histories are rebuilt from the used object's current forms (copied before the call)",
        "InputValidation.validate(name, value) on a parameter that carries a one_of rule is not judged "
        "(InputFile.set_data_value strips that rule before calling it)",
        "guards (lifted where allow_known is set, failures then carry a /known:<tag> suffix): pool-keeps-errors = "
        "values breaking >=2 rules of one EnforcerPool are skipped; validate-data-pops-one-of = validate_data / data "
        "setter calls are skipped when one_of rules are present; parameter-stores-first = the stored value is put "
        "back after a refused assignment; dependency-enabled-keyerror = table rows with optional present, enabled "
        "absent and a dependency get enabled=true written out (one row keeps the trigger); pgvalidator-uuid = "
        "property-group identifiers are passed as entities outside construction; association-ignores-lists = "
        "lists with an unknown identifier go through the data setter; stale-optional = None is not assigned to a "
        "parameter whose enabled member was flipped by an earlier accepted call",
    ]

    def strategy(self, tier):
        # (one_of would flatten the 13 per-kind pair strategies into the top-level choice: draw the layer first)
        pairs = uijson.pair_strategy()
        histories = uijson.history_strategy(8)
        # (guards of fixed findings: lifted for half of the programs, see c14.py)
        return st.integers(0, 9).flatmap(lambda i: pairs if i < 3 else histories).map(_lift_guards)

    def enumerated(self, tier):
        return uijson.table_rows() + uijson.pair_grid()

    def run_case(self, program):
        res = CaseResult()
        layer = program.get("layer")
        res.label("layer:" + str(layer))
        if layer == "table":
            switches = uijson.run_table_row(program, res, "C15")
            res.nontrivial = switches >= 2 and not res.fails
        elif layer == "pair":
            judged = uijson.run_pair(program, res, "C15")
            res.nontrivial = bool(judged) and not res.fails
        else:
            state = uijson.run_history(program, res, "C15")
            res.nontrivial = state.accepted_after_reject and not res.fails
            res.info.update({"calls": state.calls, "rejections": state.rejections})
        return res

    def shrink_candidates(self, program):
        if program.get("layer") == "history":
            for i, call in enumerate(program.get("calls") or []):
                for key, val in (("num", {"t": "float", "v": "1.5"}), ("op", 1), ("k", 0)):
                    if call.get(key) != val:
                        calls = list(program["calls"])
                        calls[i] = {**call, key: val}
                        yield {**program, "calls": calls}
        elif program.get("layer") == "pair":
            for key, val in (("opt", None), ("geoh5", "open_r"), ("ref", 0), ("pick", 0), ("text", "abc"),
                             ("num", {"t": "float", "v": "1.5"}), ("present", "uuid")):
                if program.get(key) != val:
                    yield {**program, key: val}


CHECK = C15()
