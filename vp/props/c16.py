"""C16 — merging preserves every input's geometry and data."""
from __future__ import annotations

import numpy as np
from hypothesis import strategies as st

from .. import env
from ..core import CaseResult, Check
from ..engines import spatial as S

MERGERS = {"Points": "PointsMerger", "Curve": "CurveMerger", "Surface": "SurfaceMerger", "DrapeModel": "DrapeModelMerger"}
WIDTH = {"Curve": 2, "Surface": 3}


# ================================================================================== strategy
@st.composite
def _input(draw, cls, n_pool):
    picks = draw(st.lists(st.integers(0, n_pool - 1), unique=True, min_size=draw(st.sampled_from([0, 0, 1])), max_size=3)) if n_pool else []
    data = [{"p": p, "vals": draw(st.lists(S.val, min_size=1, max_size=8))} for p in picks]
    if cls == "DrapeModel":
        return {
            "x0": draw(st.integers(-6, 6)), "top": draw(st.integers(-4, 8)),
            "counts": draw(st.lists(st.integers(1, 3), min_size=2, max_size=4)),
            "dy": draw(st.integers(-2, 2)), "data": data,
        }
    n = draw(st.integers(1, 7))
    spec = {"pts": draw(st.lists(S.pt3, min_size=n, max_size=n)), "data": data}
    if cls in WIDTH:
        spec["cells"] = draw(S.cells_strategy(n, WIDTH[cls], min_cells=1, max_cells=6))
    return spec


@st.composite
def program_strategy(draw, tier):
    cls = draw(st.sampled_from(["Points", "Curve", "Curve", "Surface", "Surface", "DrapeModel"]))
    assocs = {"Points": ["VERTEX"], "DrapeModel": ["CELL"]}.get(cls, ["VERTEX", "CELL"])
    labels = draw(st.lists(
        st.tuples(st.sampled_from(["a", "b"]), st.sampled_from([None, None, "T1", "T2"]), st.sampled_from(assocs)),
        unique=True, min_size=draw(st.sampled_from([0, 1, 1, 2, 2])), max_size=4))
    pool = [{"name": name, "tname": tname, "assoc": assoc,
             "kind": draw(st.sampled_from(["float", "float", "float", "int", "int", "bool", "ref"]))}
            for name, tname, assoc in labels]
    inputs = draw(st.lists(_input(cls, len(pool)), min_size=2, max_size=4))
    return {
        "cls": cls, "pool": pool, "ops": inputs,
        "ws2": draw(st.sampled_from([False, False, False, True])),
        # one input is listed a second time: the same object again, or its copy in another workspace (same identifier)
        "again": draw(st.sampled_from([None, None, None, None, {"k": 0, "how": "same"}, {"k": 1, "how": "copy"},
                                       {"k": 0, "how": "copy"}, {"k": 2, "how": "same"}])),
        "add_data": draw(st.sampled_from([True] * 15 + [False])),
        "allow_known": draw(st.sampled_from([False] * 9 + [True])),
    }


# ================================================================================== interpreter
def drape_arrays(spec):
    prisms, layers, first = [], [], 0
    for i, count in enumerate(spec["counts"]):
        top = spec["top"] / 2.0 + 0.5 * (i % 2)
        prisms.append([spec["x0"] / 2.0 + i, spec["dy"] * 0.5 * i, top, first, count])
        for k in range(count):
            layers.append([i, k, top - (k + 1) * 0.5])
        first += count
    return prisms, layers


def snapshot(obj, cls):
    snap = {"children": len(obj.children)}
    if cls == "DrapeModel":
        snap["prisms"] = np.asarray(obj.prisms, dtype=float).tolist()
        snap["layers"] = np.asarray(obj.layers, dtype=float).tolist()
    else:
        snap["vertices"] = S.coords_list(obj.vertices)
        if cls in WIDTH:
            snap["cells"] = [tuple(int(v) for v in row) for row in np.asarray(obj.cells).tolist()]
    data = {}
    for child in obj.children:
        assoc = getattr(getattr(child, "association", None), "name", None)
        if assoc in ("VERTEX", "CELL") and hasattr(child, "values"):
            data[(child.name, child.entity_type.name, assoc)] = S.tolist(child.values)
    snap["data"] = data
    return snap


class C16(Check):
    pid = "C16"
    level = "exploration"
    budgets = {"quick": (400, 16), "thorough": (2000, 16)}
    rule = (
        "A program = 2-4 inputs of one class (Points, Curve, Surface, DrapeModel) on a half-integer lattice, 1-7 "
        "vertices each; cells = arbitrary index tuples over arbitrary subsets of the vertices in arbitrary order "
        "(a 'prefix' mode leaves trailing vertices unreferenced by construction); drape models have 2-4 prisms "
        "of 1-3 layers; 0-3 data sets per input drawn from a shared pool of <=4 (name, type name, association, "
        "kind in float/int/bool/referenced), so sets are present on some inputs only; merged through the public "
        "<Class>Merger.merge_objects, into the same or another workspace. Oracle: merged vertices == "
        "concatenation; the merged cell at the corresponding position connects the same COORDINATES as input "
        "cell j of input i (any consistent offset scheme passes); per (name, type, association) exactly one "
        "merged data set whose values are the inputs' values at the running vertex/cell offsets and the kind's "
        "no-data value where an input lacks the set; drape models: the merged prism at the corresponding position "
        "(two ghost prisms between inputs skipped) has the same top, layer count and, through its own first-layer "
        "index, the same layer bottoms, and data follow the layers; inputs snapshotted before/after. NON-TRIVIAL "
        "= some input's largest cell index is below its last vertex index, or a data set is missing on >=1 input "
        "(and the merge ran). Distinct = program hash."
    )
    assumptions = [
        "only numeric data kinds (float, integer, boolean, referenced) are merged by the library and generated",
        "every input has >=1 cell; drape-model inputs have >=2 prisms in canonical layer order (the ghost prism "
        "is the mirror image of the neighbouring prism, which needs two)",
        "each input carries a (name, type, association) label at most once (duplicates are documented as ambiguous)",
        "ghost prisms/layers and their data are not examined beyond being skipped (two per junction)",
        "'connects the same coordinates' is compared per cell as a multiset of coordinates",
        "open finding guard: an input (other than the last) whose cells do not reach its last vertex gets one "
        "extra cell on that vertex unless the program sets allow_known (10 %), counted in excluded_by_finding",
    ]

    def strategy(self, tier):
        return program_strategy(tier)

    def run_case(self, program):
        from geoh5py import objects
        from geoh5py.shared import merging
        from geoh5py.workspace import Workspace

        res = CaseResult()
        cls = program["cls"]
        specs = [dict(spec) for spec in program.get("ops", [])]
        res.label(f"class:{cls}", f"inputs:{len(specs)}")
        if len(specs) < 2:
            return res
        pool = program["pool"]
        allow_known = bool(program.get("allow_known"))
        ws = ws2 = ws3 = None
        try:
            ws = Workspace.create(env.new_path("c16"))
            out_ws = ws
            if program.get("ws2"):
                ws2 = Workspace.create(env.new_path("c16b"))
                out_ws = ws2
                res.label("other-workspace")
            inputs = []
            trailing = []
            for k, spec in enumerate(specs):
                kwargs = {"name": f"in{k}"}
                if cls == "DrapeModel":
                    prisms, layers = drape_arrays(spec)
                    kwargs.update(prisms=np.asarray(prisms, dtype=float), layers=np.asarray(layers, dtype=float))
                    counts = {"CELL": len(layers)}
                    trailing.append(False)
                else:
                    verts = S.lattice_vertices(spec["pts"], 1.0)
                    n = len(verts)
                    kwargs["vertices"] = np.asarray(verts, dtype=float).reshape(-1, 3)
                    counts = {"VERTEX": n}
                    trailing.append(False)
                    if cls in WIDTH:
                        width = WIDTH[cls]
                        cells = [tuple(int(v) % n for v in cell[:width]) for cell in spec["cells"]]
                        if max(max(c) for c in cells) < n - 1:
                            if k < len(specs) - 1 and not allow_known:
                                # open finding: offsets follow the largest referenced index of earlier inputs
                                cells.append((n - 1,) * width)
                                res.count("excluded_by_finding")
                            else:
                                trailing[-1] = True
                        kwargs["cells"] = np.asarray(cells, dtype="uint32").reshape(-1, width)
                        counts["CELL"] = len(cells)
                try:
                    obj = getattr(objects, cls).create(ws, **kwargs)
                    for dspec in spec.get("data", []):
                        entry = pool[dspec["p"] % len(pool)]
                        arr, _ = S.make_values(entry["kind"], dspec["vals"], counts[entry["assoc"]])
                        obj.add_data({entry["name"]: S.data_attrs(entry["kind"], entry["assoc"], arr, entry["tname"])})
                except Exception as exc:
                    res.label("build_error")
                    res.info = {"build_error": repr(exc)[:300]}
                    return res
                inputs.append(obj)
            again = program.get("again")
            if again and cls != "DrapeModel":
                source = inputs[again["k"] % len(inputs)]
                if again["how"] == "copy":
                    ws3 = Workspace.create(env.new_path("c16c"))
                    source = source.copy(parent=ws3)
                inputs.append(source)
                trailing.append(trailing[again["k"] % len(trailing)])
                res.label(f"input-listed-again:{again['how']}")
            before = [snapshot(obj, cls) for obj in inputs]
            merger = getattr(merging, MERGERS[cls])
            add_data = bool(program.get("add_data", True))
            try:
                merged = merger.merge_objects(out_ws, list(inputs), add_data=add_data, name="merged")
            except Exception as exc:
                res.fail(f"C16/merge-raises/merge/{cls}/{type(exc).__name__}", f"{exc!r}")
                return res
            res.count("merges")
            # ------------------------------------------------------------------ geometry
            if type(merged).__name__ != cls or merged.workspace is not out_ws:
                res.fail(f"C16/merged-class/merge/{cls}/class-or-workspace", f"{type(merged).__name__}")
                return res
            cell_index = []  # per input: merged data index of each of its cells / layers
            if cls == "DrapeModel":
                self.check_drape(res, before, merged, cell_index)
            else:
                want = [v for snap in before for v in snap["vertices"]]
                got = S.coords_list(merged.vertices) or []
                if got != want:
                    res.fail(f"C16/vertices-differ/merge/{cls}/concatenation",
                             f"merged vertices {got[:12]}... want {want[:12]}...")
                if cls in WIDTH:
                    mcells = [tuple(int(v) for v in row) for row in np.asarray(merged.cells).tolist()]
                    total = sum(len(snap["cells"]) for snap in before)
                    if len(mcells) != total:
                        res.fail(f"C16/cell-count/merge/{cls}/sum", f"{len(mcells)} merged cells, inputs have {total}")
                    else:
                        pos = 0
                        for i, snap in enumerate(before):
                            for j, cell in enumerate(snap["cells"]):
                                mcell = mcells[pos]
                                ok = all(0 <= v < len(got) for v in mcell) and \
                                    sorted(got[v] for v in mcell) == sorted(snap["vertices"][v] for v in cell)
                                if not ok:
                                    cond = ("after-trailing-unreferenced-vertices" if any(trailing[:i])
                                            else "offset")
                                    res.fail(f"C16/cell-coords-differ/merge/{cls}/{cond}",
                                             f"merged cell {pos} {mcell} does not connect the coordinates of cell {j} "
                                             f"{cell} of input {i} (inputs have {[len(s['vertices']) for s in before]} "
                                             f"vertices, largest cell indices "
                                             f"{[max(max(c) for c in s['cells']) for s in before]})")
                                    break
                                pos += 1
                            else:
                                continue
                            break
                    offs = 0
                    for snap in before:
                        cell_index.append(list(range(offs, offs + len(snap["cells"]))))
                        offs += len(snap["cells"])
            # ------------------------------------------------------------------ data
            labels = []
            for snap in before:
                for label in snap["data"]:
                    if label not in labels:
                        labels.append(label)
            merged_sets = {}
            for child in merged.children:
                assoc = getattr(getattr(child, "association", None), "name", None)
                if assoc in ("VERTEX", "CELL") and hasattr(child, "values"):
                    merged_sets.setdefault((child.name, child.entity_type.name, assoc), []).append(child)
            missing_somewhere = False
            if add_data and not res.fails:
                kind_of = {(e["name"], e["tname"] or e["name"], e["assoc"]): e["kind"] for e in pool}
                for label in labels:
                    kind = kind_of[label]
                    lacking = [i for i, snap in enumerate(before) if label not in snap["data"]]
                    missing_somewhere |= bool(lacking)
                    cond = f"{label[2]},{kind},{'missing-on-some' if lacking else 'on-all'}"
                    found = merged_sets.get(label, [])
                    if len(found) != 1:
                        res.fail(f"C16/data-set-count/merge/{cls}/{cond}",
                                 f"{len(found)} merged data sets for {label}; merged has {sorted(merged_sets)}")
                        continue
                    got = S.tolist(found[0].values) or []
                    if label[2] == "VERTEX":
                        want = []
                        for snap in before:
                            want += snap["data"].get(label, [S.NODATA[kind]] * len(snap["vertices"]))
                        if got != want:
                            res.fail(f"C16/data-differs/merge/{cls}/{cond}", f"{label}: got {got} want {want}")
                    else:
                        bad = None
                        for i, snap in enumerate(before):
                            vals = snap["data"].get(label, [S.NODATA[kind]] * len(cell_index[i]))
                            for j, idx in enumerate(cell_index[i]):
                                if idx >= len(got) or got[idx] != vals[j]:
                                    bad = (i, j, idx)
                                    break
                            if bad:
                                break
                        n_expected = (sum(len(ci) for ci in cell_index) if cls != "DrapeModel"
                                      else len(np.asarray(merged.layers)))
                        if bad or len(got) != n_expected:
                            res.fail(f"C16/data-differs/merge/{cls}/{cond}",
                                     f"{label}: merged values {got}; first mismatch (input, cell, merged index) {bad}; "
                                     f"inputs {[s['data'].get(label) for s in before]}")
                for label in merged_sets:
                    if label not in labels:
                        res.fail(f"C16/data-extra/merge/{cls}/{label[2]}", f"merged has {label}, no input has it")
            elif not add_data and merged_sets:
                res.fail(f"C16/data-extra/merge/{cls}/add_data=False", f"{sorted(merged_sets)}")
            # ------------------------------------------------------------------ inputs unchanged
            for i, obj in enumerate(inputs):
                after = snapshot(obj, cls)
                for key in before[i]:
                    if after[key] != before[i][key]:
                        res.fail(f"C16/input-modified/merge/{cls}/{key}",
                                 f"input {i} {key}: before {str(before[i][key])[:300]} after {str(after[key])[:300]}")
            # ------------------------------------------------------------------ the merged object as stored
            if not res.fails:
                live = snapshot(merged, cls)
                merged_uid = merged.uid
                out_path = out_ws.h5file
                del merged
                out_ws.close()
                fresh_ws = Workspace(out_path, mode="r")
                try:
                    again = fresh_ws.get_entity(merged_uid)[0]
                    stored = snapshot(again, cls) if again is not None else {}
                    for key in live:
                        if stored.get(key) != live[key]:
                            res.fail(f"C16/merged-differs-after-reopen/merge/{cls}/{key}",
                                     f"{key}: live {str(live[key])[:300]} re-opened {str(stored.get(key))[:300]}")
                            break
                    del again
                finally:
                    fresh_ws.close()
            if any(trailing):
                res.label("trailing-unreferenced-vertices")
            if any(trailing[:-1]):
                res.label("trailing-unreferenced-before-last")
            if missing_somewhere:
                res.label("data-missing-on-some-input")
            if labels:
                res.label(f"data-labels:{min(len(labels), 3)}{'+' if len(labels) > 3 else ''}")
            for label in labels:
                res.label(f"assoc:{label[2]}")
            if cls in WIDTH and any(sorted(s["cells"]) != s["cells"] for s in before):
                res.label("unordered-cells")
            res.nontrivial = bool(any(trailing) or missing_somewhere)
            res.info = {"vertices": [len(s.get("vertices", s.get("prisms", []))) for s in before],
                        "labels": [list(lab) for lab in labels]}
        finally:
            env.close_quietly(ws, ws2, ws3)
        return res

    @staticmethod
    def check_drape(res, before, merged, cell_index):
        cls = "DrapeModel"
        mpr = np.asarray(merged.prisms, dtype=float).tolist()
        mla = np.asarray(merged.layers, dtype=float).tolist()
        n_in = len(before)
        want_prisms = sum(len(s["prisms"]) for s in before) + 2 * (n_in - 1)
        want_layers = sum(len(s["layers"]) for s in before) + 2 * (n_in - 1)
        if len(mpr) != want_prisms or len(mla) != want_layers:
            res.fail(f"C16/cell-count/merge/{cls}/prisms-or-layers",
                     f"{len(mpr)} prisms {len(mla)} layers, want {want_prisms} / {want_layers} (two ghosts per junction)")
            for snap in before:
                cell_index.append([])
            return
        ppos = 0
        for i, snap in enumerate(before):
            index = []
            for p, prism in enumerate(snap["prisms"]):
                mp = mpr[ppos + p]
                first, count = int(mp[3]), int(mp[4])
                ifirst, icount = int(prism[3]), int(prism[4])
                if mp[:3] != prism[:3] or count != icount:
                    res.fail(f"C16/vertices-differ/merge/{cls}/prism",
                             f"merged prism {ppos + p} {mp} vs prism {p} of input {i} {prism}")
                    break
                ok = first >= 0 and first + count <= len(mla)
                for k in range(count if ok else 0):
                    ml, il = mla[first + k], snap["layers"][ifirst + k]
                    if ml[1:] != il[1:] or int(ml[0]) != ppos + p:
                        ok = False
                        break
                if not ok:
                    res.fail(f"C16/cell-coords-differ/merge/{cls}/layers",
                             f"layers of merged prism {ppos + p} (first {first} count {count}) differ from those of "
                             f"prism {p} of input {i}: merged {mla[first:first + count]} input "
                             f"{snap['layers'][ifirst:ifirst + icount]}")
                    break
                index += list(range(first, first + count))
            # data follow the layers: input layer order is prism by prism (canonical), so is `index`
            if len(index) != len(snap["layers"]):
                index = index + [len(mla)] * (len(snap["layers"]) - len(index))
            cell_index.append(index)
            ppos += len(snap["prisms"]) + 2

    def shrink_candidates(self, program):
        if program.get("ws2"):
            yield {**program, "ws2": False}
        ops = program["ops"]
        for k, spec in enumerate(ops):
            if spec.get("data"):
                for j in range(len(spec["data"])):
                    new = dict(spec, data=spec["data"][:j] + spec["data"][j + 1:])
                    yield {**program, "ops": ops[:k] + [new] + ops[k + 1:]}
            if "cells" in spec and len(spec["cells"]) > 1:
                for j in range(len(spec["cells"])):
                    new = dict(spec, cells=spec["cells"][:j] + spec["cells"][j + 1:])
                    yield {**program, "ops": ops[:k] + [new] + ops[k + 1:]}
            if "counts" in spec and len(spec["counts"]) > 2:
                yield {**program, "ops": ops[:k] + [dict(spec, counts=spec["counts"][:-1])] + ops[k + 1:]}


CHECK = C16()
