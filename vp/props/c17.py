"""C17 — derived geometry (cell centres, curve segments/parts) follows the format's indexing conventions."""
from __future__ import annotations

import numpy as np

from .. import env
from ..core import CaseResult, Check
from ..engines import geom

GRID_CLASSES = ("BlockModel", "Grid2D", "Octree")
NO_ORIGIN_DEFECT = ("BlockModel", "Octree")  # default origin is a plain array: centroids raise (finding)


def _angle_class(value):
    if value is None:
        return "omitted"
    if float(value) % 360.0 == 0.0:
        return "zero"
    return "exact" if float(value) in geom.EXACT_ANGLES or float(value) in geom.EXACT_DIPS else "float"


class C17(Check):
    pid = "C17"
    level = "exploration"
    budgets = {"quick": (600, 16), "thorough": (3500, 16)}
    rule = (
        "Programs: one BlockModel (1-5 cells/axis, monotone delimiters from 0, increasing or decreasing), Grid2D "
        "(counts 1-6, +/- cell sizes, rotation/dip from exact angles or arbitrary floats, vertical flag), Octree "
        "(power-of-two counts 1-16, default refinement or explicit valid (I,J,K,N) records in any order) or Curve "
        "(2-10 vertices; arbitrary part labelings incl. non-contiguous labels and single-vertex parts; segment lists "
        "as ordered chains or arbitrary), origin/rotation/dip explicit or omitted, followed by 0-5 geometry setter "
        "calls interleaved with `centroids` (or `cells`/`parts`) reads. Oracle: index formulas written from "
        "objects.rst evaluated in pure NumPy for the parameters current at each read (block: k+i*nZ+j*nU*nZ at "
        "origin+Rz(rot)*mid-points; grid: i+j*nU at origin+Rz(rot)*Rx(dip)*((i+.5)du,(j+.5)dv,0); octree: "
        "records), len(centroids)==n_cells, default octree tiles the base grid exactly once, a stale result after a "
        "setter is told apart from a wrong formula; curve segments from labels == consecutive same-label vertices, "
        "derived part labels induce the partition into connected components of the segments. Tolerance "
        "1e-9*(1+max|coordinate|). Non-trivial = no failing clause and either a grid with >=2 cells on >=2 axes "
        "whose centres were read with a non-zero rotation or after >=1 setter call, or a curve with >=2 parts of "
        "which one has >=2 vertices and >=1 derived read (cells from labels / parts from cells). Distinct = "
        "distinct program hash."
    )
    assumptions = [
        "rotation is counter-clockwise about the vertical axis at the origin (objects.rst; the property docstrings "
        "say 'clockwise' but the format document is the reference)",
        "Grid2D dip is a rotation about the U axis lifting +V towards +Z, applied before the rotation; sign and "
        "order follow from objects.rst 'Vertical: if true, V axis is vertical' == dip 90 (Grid2D.dip getter) and "
        "'rotation around the vertical axis at the Origin'",
        "omitted origin means (0,0,0), omitted rotation/dip mean 0 (format defaults)",
        "Grid2D dip/vertical interplay (dip=90 <-> vertical) is library policy: the effective dip used by the "
        "oracle is 90 if the flag reads back true, else the dip read back after the setter; every other parameter "
        "comes from the program, never from the object",
        "an Octree whose base counts are changed after its default records were materialised keeps those records "
        "(treated as explicit records from then on: tiling is only demanded for the counts they were built for)",
        "workspaces are on tmpfs files; no re-open (persistence of setters belongs to C01/C03)",
        "a setter that raises on a valid value is counted (op_error), not a C17 violation; a `centroids` read that "
        "raises is a violation (the statement requires centres with or without origin)",
    ]

    def strategy(self, tier):
        from hypothesis import strategies as st

        max_ops = 5
        return st.one_of(geom.grid_program_strategy(max_ops), geom.grid_program_strategy(max_ops),
                         geom.grid_program_strategy(max_ops), geom.curve_program_strategy(max_ops))

    # ------------------------------------------------------------------ interpreter
    def run_case(self, program) -> CaseResult:
        res = CaseResult()
        cls = program["cls"]
        res.label(f"class:{cls}")
        if True:  # guards retired
            res.label("allow_known")
        from geoh5py.workspace import Workspace

        ws = None
        try:
            ws = Workspace.create(env.new_path())
            if cls == "Curve":
                self._run_curve(ws, program, res)
            else:
                self._run_grid(ws, program, res)
        finally:
            env.close_quietly(ws)
        if res.fails:
            res.nontrivial = False
            seen, uniq = set(), []
            for f in res.fails:  # one report per signature and case
                if f.sig not in seen:
                    seen.add(f.sig)
                    uniq.append(f)
            res.fails = uniq
        return res

    # ------------------------------------------------------------------ grids
    def _run_grid(self, ws, program, res):
        from geoh5py import objects

        cls = program["cls"]
        create = dict(program["create"])
        ops = program["ops"]
        allow = True  # guards retired: the findings they protected are fixed (known_findings.json)

        origin_given = create.get("origin") is not None
        if not origin_given and cls in NO_ORIGIN_DEFECT:
            first_read = next((n for n, op in enumerate(ops) if op["op"] == "read"), None)
            first_origin = next((n for n, op in enumerate(ops) if op["op"] == "set" and op["attr"] == "origin"), None)
            triggers = first_read is not None and (first_origin is None or first_read < first_origin)
            if triggers and not allow:
                create["origin"] = [0.0, 0.0, 0.0]  # guard of the no-origin finding: state the default explicitly
                res.count("excluded_by_finding")
                res.label("guard:origin-made-explicit")
        res.label("origin:explicit" if origin_given else "origin:omitted")
        res.label(f"rot:{_angle_class(create.get('rotation'))}")
        if cls == "Grid2D":
            res.label(f"dip:{_angle_class(create.get('dip'))}")
            res.label(f"vertical:{create.get('vertical')}")
            if create["u_cell_size"] < 0 or create["v_cell_size"] < 0:
                res.label("grid:negative-size")
        if cls == "BlockModel" and any(create[k][-1] < 0 for k in
                                        ("u_cell_delimiters", "v_cell_delimiters", "z_cell_delimiters")):
            res.label("block:decreasing-delimiters")
        if cls == "Octree":
            res.label("octree:explicit-records" if create.get("octree_cells") is not None else "octree:default")

        truth = {"int": int, "np": np.bool_}.get(create.pop("vertical_as", "bool"), bool)
        kwargs = {}
        for key, val in create.items():
            if val is None:
                continue
            if key == "vertical":
                val = truth(val)
                res.label(f"vertical-as:{type(val).__name__}")
            if key.endswith("delimiters"):
                val = np.asarray(val, dtype=float)
            elif key == "octree_cells":
                val = np.asarray(val, dtype=int).reshape((-1, 4))
            kwargs[key] = val
        try:
            obj = getattr(objects, cls).create(ws, **kwargs)
        except Exception as exc:  # creation with valid arguments: not this property's business
            res.count("op_error")
            res.label(f"op_error:create:{cls}:{type(exc).__name__}")
            res.info = {"create_error": repr(exc)[:200]}
            return

        # the oracle's own copy of the parameters (never read from the object, except Grid2D dip/vertical)
        model = {k: v for k, v in create.items()}
        if model.get("origin") is None:
            model["origin"] = [0.0, 0.0, 0.0]
        if model.get("rotation") is None:
            model["rotation"] = 0.0
        records_mode = None
        if cls == "Octree":
            records_mode = "explicit" if create.get("octree_cells") is not None else "default"
        prev_expected = None  # reference centres at the previous read (to recognise a stale cache)
        last, last_attr = "create", ""
        setters_before = 0
        good_read = False
        n_reads = 0

        origin_set = False
        for op in ops:
            if op["op"] == "set":
                attr, value = op["attr"], op["value"]
                res.label(f"set:{attr}")
                try:
                    if attr.endswith("delimiters"):
                        setattr(obj, attr, np.asarray(value, dtype=float))
                    elif attr == "octree_cells":
                        setattr(obj, attr, np.asarray(value, dtype=int).reshape((-1, 4)))
                    elif attr == "origin":
                        setattr(obj, attr, [float(v) for v in value])
                    elif attr == "vertical":
                        setattr(obj, attr, truth(value))
                    else:
                        setattr(obj, attr, value)
                except Exception as exc:
                    res.count("op_error")
                    res.label(f"op_error:set:{attr}:{type(exc).__name__}")
                    continue
                model[attr] = value
                origin_set = origin_set or attr == "origin"
                if cls == "Octree":
                    if attr == "octree_cells":
                        records_mode = "explicit"
                    elif attr.endswith("_count") and records_mode == "default":
                        records_mode = "stale-default"
                        res.label("octree:count-changed-under-default-records")
                last, last_attr = "set", attr
                setters_before += 1
                res.count("setter_calls")
                continue

            # ---- read
            n_reads += 1
            res.count("centroid_reads")
            try:
                cent = obj.centroids
                n_cells = obj.n_cells
                cent = None if cent is None else np.array(cent, dtype=float)
            except Exception as exc:
                if cls in NO_ORIGIN_DEFECT and not origin_given and not origin_set:
                    res.fail(f"C17/centroids-raise/read/{cls}/origin-omitted:{type(exc).__name__}",
                             f"{cls} created without origin: centroids raised {exc!r}")
                else:
                    res.fail(f"C17/centroids-raise/read-after-{last}/{cls}/{type(exc).__name__}",
                             f"centroids raised {exc!r} with parameters {self._brief(model)}")
                continue
            if cent is None:
                res.fail(f"C17/centroids-none/read-after-{last}/{cls}/fully-specified",
                         f"centroids is None although all parameters are set: {self._brief(model)}")
                continue

            expected, dims, extra_fail = self._expected(cls, obj, model, records_mode, res)
            for sig_tail, msg in extra_fail:
                res.fail(f"C17/{sig_tail.format(last=last, cls=cls)}", msg)
            if expected is None:
                continue
            if n_cells is None or int(n_cells) != len(expected) or cent.shape != (len(expected), 3):
                res.fail(f"C17/count-mismatch/read-after-{last}/{cls}/centroids-vs-n_cells",
                         f"n_cells={n_cells} centroids.shape={cent.shape} formula cells={len(expected)} "
                         f"{self._brief(model)}")
                prev_expected = expected
                continue
            scale = float(np.max(np.abs(expected))) if expected.size else 0.0
            tol = 1e-9 * (1.0 + scale)
            if not np.all(np.isfinite(cent)) or float(np.max(np.abs(cent - expected))) > tol:
                kind = "position"
                if (prev_expected is not None and prev_expected.shape == cent.shape
                        and float(np.max(np.abs(cent - prev_expected))) <= tol and last != "create"):
                    kind = f"stale-cache:{last_attr}"
                elif np.all(np.isfinite(cent)) and self._same_set(cent, expected, tol):
                    kind = "order"
                worst = int(np.argmax(np.max(np.abs(cent - expected), axis=1))) if np.all(np.isfinite(cent)) else -1
                res.fail(
                    f"C17/centroid-formula/read-after-{last}/{cls}/{kind}",
                    f"cell {worst}: library {cent[worst].tolist()} formula {expected[worst].tolist()} tol {tol:.3g}; "
                    f"{self._brief(model)}",
                )
            else:
                rot_nonzero = float(model["rotation"]) % 360.0 != 0.0
                if dims >= 2 and (rot_nonzero or setters_before > 0):
                    good_read = True
                if setters_before > 0:
                    res.label("read-after-setter")
            prev_expected = expected

        res.nontrivial = good_read and not res.fails
        res.info = {"reads": n_reads, "setters": setters_before}

    def _expected(self, cls, obj, model, records_mode, res):
        """Reference centres for the current model; (array | None, #axes with >=2 cells, extra failures)."""
        extra = []
        origin, rotation = model["origin"], float(model["rotation"])
        if cls == "BlockModel":
            d_u, d_v, d_z = (model[k] for k in ("u_cell_delimiters", "v_cell_delimiters", "z_cell_delimiters"))
            dims = sum(1 for d in (d_u, d_v, d_z) if len(d) > 2)
            return geom.ref_block_centroids(origin, rotation, d_u, d_v, d_z), dims, extra
        if cls == "Grid2D":
            try:
                vertical, dip = bool(obj.vertical), float(obj.dip)
            except Exception as exc:
                extra.append(("getter-raises/read-after-{last}/{cls}/dip-or-vertical", repr(exc)))
                return None, 0, extra
            eff_dip = 90.0 if vertical else dip
            res.label("grid:effective-dip-nonzero" if eff_dip % 360.0 else "grid:effective-dip-zero")
            n_u, n_v = int(model["u_count"]), int(model["v_count"])
            dims = sum(1 for n in (n_u, n_v) if n >= 2)
            return (geom.ref_grid_centroids(origin, rotation, eff_dip, n_u, n_v, float(model["u_cell_size"]),
                                            float(model["v_cell_size"])), dims, extra)
        # Octree
        try:
            raw = obj.octree_cells
            records = [(int(r["I"]), int(r["J"]), int(r["K"]), int(r["NCells"])) for r in raw]
        except Exception as exc:
            extra.append(("getter-raises/read-after-{last}/{cls}/octree_cells", repr(exc)))
            return None, 0, extra
        n_u, n_v, n_w = int(model["u_count"]), int(model["v_count"]), int(model["w_count"])
        if records_mode == "explicit":
            given = [tuple(int(v) for v in r) for r in model["octree_cells"]]
            if records != given:
                extra.append(("octree-records/read-after-{last}/{cls}/differ-from-given",
                              f"records read back {records[:6]}... differ from the records given {given[:6]}..."))
        elif records_mode == "default":
            errors = geom.octree_tiling_errors(records, n_u, n_v, n_w)
            res.count("default_tilings_checked")
            if errors:
                extra.append(("default-tiling/read-after-{last}/{cls}/not-exactly-once",
                              f"default refinement of {n_u}x{n_v}x{n_w}: {errors}"))
        dims = sum(1 for col in range(3) if len({r[col] for r in records}) >= 2)
        return (geom.ref_octree_centroids(origin, rotation, records, float(model["u_cell_size"]),
                                          float(model["v_cell_size"]), float(model["w_cell_size"])), dims, extra)

    @staticmethod
    def _same_set(a, b, tol):
        """Same centres up to a permutation of the rows (only evaluated to classify a failure)."""
        if a.shape != b.shape or len(a) > 5000:
            return False
        dist = np.max(np.abs(a[:, None, :] - b[None, :, :]), axis=2)
        return bool(np.all(dist.min(axis=0) <= tol) and np.all(dist.min(axis=1) <= tol))

    @staticmethod
    def _brief(model):
        return {k: (v if not isinstance(v, list) or len(v) <= 8 else f"<{len(v)} items>") for k, v in model.items()}

    # ------------------------------------------------------------------ curves
    def _run_curve(self, ws, program, res):
        from geoh5py.objects import Curve

        create, ops = program["create"], program["ops"]
        allow = True  # guards retired: the findings they protected are fixed (known_findings.json)
        n = int(create["n"])
        verts = np.c_[np.arange(n, dtype=float), (np.arange(n) % 3) / 2.0, np.zeros(n)]
        kwargs = {"vertices": verts}
        source = ("none", None)
        if create["mode"] == "parts":
            kwargs["parts"] = np.asarray(create["labels"], dtype="int32")
            source = ("labels", list(create["labels"]))
        elif create["mode"] == "cells":
            kwargs["cells"] = np.asarray(create["cells"], dtype="uint32")
            source = ("cells", [list(c) for c in create["cells"]])
            res.label(f"curve:cells-{create.get('style')}")
        res.label(f"curve:create-{create['mode']}")
        try:
            obj = Curve.create(ws, **kwargs)
        except Exception as exc:
            res.count("op_error")
            res.label(f"op_error:create:Curve:{type(exc).__name__}")
            return

        derived_reads = 0
        rich = False

        def expected_cells():
            kind, val = source
            if kind == "labels":
                out = []
                for lab in sorted(set(val)):
                    idx = [i for i, v in enumerate(val) if v == lab]
                    out.extend([[a, b] for a, b in zip(idx[:-1], idx[1:])])
                return out
            if kind == "cells":
                return [list(c) for c in val]
            return [[i, i + 1] for i in range(n - 1)]

        for op in ops:
            kind = op["op"]
            if kind == "set_parts":
                try:
                    obj.parts = np.asarray(op["labels"], dtype="int32")
                except Exception as exc:
                    res.count("op_error")
                    res.label(f"op_error:set_parts:{type(exc).__name__}")
                    continue
                source = ("labels", list(op["labels"]))
                res.label("set:parts")
                res.count("setter_calls")
            elif kind == "reassign_parts":
                # the labels the object reports are assigned back (read-modify-assign with nothing modified): from
                # then on the segments are the ones derived from those labels
                try:
                    current = np.asarray(obj.parts)
                    obj.parts = np.array(current, dtype="int32")
                except Exception as exc:
                    res.count("op_error")
                    res.label(f"op_error:reassign_parts:{type(exc).__name__}")
                    continue
                if len(current) != n:
                    continue  # reported by read_parts
                if not geom.chain_ordered(expected_cells()):
                    res.label("curve:parts-reassigned-over-non-chain-cells")
                source = ("labels", [int(v) for v in current])
                res.label("set:parts-reassigned")
                res.count("setter_calls")
            elif kind == "set_cells":
                try:
                    obj.cells = np.asarray(op["cells"], dtype="uint32")
                except ValueError as exc:
                    if "fewer values" in str(exc):  # documented refusal: state unchanged
                        res.count("rejections")
                        res.label("rejection:set_cells-fewer")
                    else:
                        res.count("op_error")
                        res.label("op_error:set_cells:ValueError")
                    continue
                except Exception as exc:
                    res.count("op_error")
                    res.label(f"op_error:set_cells:{type(exc).__name__}")
                    continue
                source = ("cells", [list(c) for c in op["cells"]])
                res.label("set:cells", f"curve:cells-{op.get('style')}")
                res.count("setter_calls")
            elif kind == "read_cells":
                try:
                    cells = obj.cells
                    cells = [] if cells is None else [[int(a), int(b)] for a, b in np.asarray(cells).reshape((-1, 2))]
                except Exception as exc:
                    res.fail(f"C17/cells-raise/read_cells/Curve/source-{source[0]}:{type(exc).__name__}",
                             f"cells raised {exc!r} for {source}")
                    continue
                if source[0] == "labels":
                    derived_reads += 1
                    labels = source[1]
                    ref = geom.ref_segments_from_parts(labels)
                    got = {(min(a, b), max(a, b)) for a, b in cells}
                    sizes = {}
                    for lab in labels:
                        sizes[lab] = sizes.get(lab, 0) + 1
                    if 1 in sizes.values():
                        res.label("curve:single-vertex-part")
                    if any(labels[i] != labels[i + 1] and labels[i] in labels[i + 1:] for i in range(n - 1)):
                        res.label("curve:non-contiguous-label")
                    if got != ref or len(cells) != len(ref):
                        cond = "joins-different-parts" if any(labels[a] != labels[b] for a, b in got) else (
                            "skips-or-misses-vertices")
                        res.fail(f"C17/segments-from-parts/read_cells/Curve/{cond}",
                                 f"labels {labels}: library segments {sorted(got)} (n={len(cells)}) reference "
                                 f"{sorted(ref)}")
                    try:
                        if obj.n_cells != len(ref):
                            res.fail("C17/count-mismatch/read_cells/Curve/n_cells-vs-segments",
                                     f"n_cells={obj.n_cells} reference segments={len(ref)} labels {labels}")
                    except Exception as exc:
                        res.fail(f"C17/cells-raise/n_cells/Curve/{type(exc).__name__}", repr(exc))
                    if len(sizes) >= 2 and max(sizes.values()) >= 2:
                        rich = True
                elif source[0] == "cells" and cells != source[1]:
                    res.fail("C17/cells-changed/read_cells/Curve/differ-from-given",
                             f"given {source[1]} read {cells}")
            elif kind == "read_parts":
                try:
                    parts = obj.parts
                    parts = None if parts is None else [int(v) for v in np.asarray(parts).ravel()]
                except Exception as exc:
                    res.fail(f"C17/parts-raise/read_parts/Curve/source-{source[0]}:{type(exc).__name__}",
                             f"parts raised {exc!r} for {source}")
                    continue
                if parts is None or len(parts) != n:
                    res.fail("C17/count-mismatch/read_parts/Curve/parts-vs-vertices",
                             f"parts={parts} for {n} vertices")
                    continue
                cells = expected_cells()
                comps = geom.components(n, cells)
                touched = {v for c in cells for v in c}
                isolated = [v for v in range(n) if v not in touched]
                ordered = geom.chain_ordered(cells)
                # the labels are always re-derived from the segments: the `parts` setter persists the cells at
                # once, and reading `cells` drops the labels it was given
                derived_reads += 1
                if isolated:
                    res.label("curve:parts-with-isolated-vertex")
                if not ordered:
                    res.label("curve:parts-from-non-chain-cells")
                if parts == (source[1] if source[0] == "labels" else None):
                    res.label("curve:labels-returned-verbatim")
                subset = None
                if not allow:
                    # guards of the two curve findings: compare on what they do not touch
                    if not ordered:
                        res.count("excluded_by_finding")
                        continue
                    if isolated:
                        res.count("excluded_by_finding")
                        subset = sorted(touched)
                if not geom.same_partition(parts, comps, subset):
                    if geom.same_partition(parts, comps, sorted(touched)) and isolated:
                        cond = "isolated-vertex-joins-a-part"
                    elif not ordered:
                        cond = "non-chain-cells"
                    else:
                        cond = "chain-ordered-cells"
                    res.fail(f"C17/parts-vs-connectivity/read_parts/Curve/{cond}",
                             f"segments {cells}: parts {parts} but connected components {comps} "
                             f"(source {source[0]})")
                elif len(set(comps)) >= 2 and max(comps.count(c) for c in set(comps)) >= 2:
                    rich = True
        res.nontrivial = rich and derived_reads > 0 and not res.fails
        res.info = {"derived_reads": derived_reads, "source": source[0]}

    # ------------------------------------------------------------------ shrinking
    def shrink_candidates(self, program):
        create = program.get("create", {})
        if program.get("cls") == "Curve":
            yield from self._shrink_curve(program)
            return
        if program.get("cls") in GRID_CLASSES:
            for key, simple in (("rotation", None), ("dip", None), ("vertical", None), ("origin", [0.0, 0.0, 0.0])):
                if key in create and create[key] != simple and not (key == "origin" and create[key] is None):
                    cand = dict(program)
                    cand["create"] = dict(create, **{key: simple})
                    yield cand
            for key in ("u_count", "v_count", "w_count"):
                if key in create and create[key] > 1 and program["cls"] != "Octree":
                    cand = dict(program)
                    cand["create"] = dict(create, **{key: create[key] - 1})
                    yield cand
            for key in ("u_count", "v_count", "w_count"):
                if program["cls"] == "Octree" and create.get(key, 1) > 1 and create.get("octree_cells") is None:
                    cand = dict(program)
                    cand["create"] = dict(create, **{key: create[key] // 2})
                    yield cand
            for key in ("u_cell_delimiters", "v_cell_delimiters", "z_cell_delimiters"):
                if key in create and len(create[key]) > 2:
                    cand = dict(program)
                    cand["create"] = dict(create, **{key: create[key][:-1]})
                    yield cand
            for key in ("u_cell_size", "v_cell_size", "w_cell_size"):
                if key in create and create[key] != 1.0:
                    cand = dict(program)
                    cand["create"] = dict(create, **{key: 1.0})
                    yield cand

    @staticmethod
    def _shrink_curve(program):
        create = program["create"]
        n = int(create["n"])

        def fits(prog, m):
            """All vertex indices used anywhere are < m."""
            lists = [prog["create"].get("cells") or []] + [op.get("cells") or [] for op in prog["ops"]]
            return all(max(c) < m for cells in lists for c in cells)

        if n > 2 and fits(program, n - 1):  # drop the last vertex
            cand = dict(program)
            cand["create"] = dict(create, n=n - 1)
            if "labels" in create:
                cand["create"]["labels"] = create["labels"][: n - 1]
            cand["ops"] = [dict(op, labels=op["labels"][: n - 1]) if "labels" in op else op for op in program["ops"]]
            yield cand
        if create.get("cells") and len(create["cells"]) > 1:
            for i in range(len(create["cells"])):
                cand = dict(program)
                cand["create"] = dict(create, cells=create["cells"][:i] + create["cells"][i + 1:])
                yield cand
        for pos, op in enumerate(program["ops"]):
            if op.get("cells") and len(op["cells"]) > 1:
                for i in range(len(op["cells"])):
                    cand = dict(program)
                    cand["ops"] = list(program["ops"])
                    cand["ops"][pos] = dict(op, cells=op["cells"][:i] + op["cells"][i + 1:])
                    yield cand
        # relabel to small consecutive integers
        def compact(labels):
            order = {}
            return [order.setdefault(v, len(order)) for v in labels]

        if "labels" in create and compact(create["labels"]) != create["labels"]:
            cand = dict(program)
            cand["create"] = dict(create, labels=compact(create["labels"]))
            yield cand


CHECK = C17()
