"""Independent reader of a geoh5 file: plain h5py, no geoh5py import.

Written from docs/content/geoh5_format: what Geoscience ANALYST (or any third-party reader) sees.
"""
from __future__ import annotations

import hashlib
import json

import h5py
import numpy as np

CONTAINERS = ("Data", "Groups", "Objects")
TYPE_CONTAINERS = ("Data types", "Group types", "Object types")
TYPE_OF = {"Data": "Data types", "Groups": "Group types", "Objects": "Object types"}


def decode(value):
    """Decode an HDF5 attribute / small dataset into plain python."""
    if isinstance(value, bytes):
        try:
            return value.decode("utf-8")
        except UnicodeDecodeError:
            return "hex:" + value.hex()
    if isinstance(value, np.ndarray):
        if value.dtype.names:
            return [decode(tuple(row)) for row in value.tolist()]
        return [decode(v) for v in value.tolist()]
    if isinstance(value, (tuple, list)):
        return [decode(v) for v in value]
    if isinstance(value, np.generic):
        return decode(value.item())
    if isinstance(value, float) and value != value:
        return "NaN"
    return value


def addr_of(obj) -> int:
    return h5py.h5o.get_info(obj.id).addr


def dataset_digest(ds: h5py.Dataset):
    try:
        data = ds[()]
    except Exception as exc:  # unreadable dataset
        return ("unreadable", type(exc).__name__)
    dec = decode(data) if not isinstance(data, np.void) else "hex:" + bytes(data).hex()
    text = json.dumps(dec, sort_keys=True, default=str)
    return (str(ds.dtype), tuple(ds.shape), hashlib.sha1(text.encode()).hexdigest()[:16])


def dataset_value(ds: h5py.Dataset):
    data = ds[()]
    if isinstance(data, np.void):
        return bytes(data)
    return data


def snap_node(node: h5py.Group, kind: str | None):
    out = {
        "addr": addr_of(node),
        "attrs": {k: decode(v) for k, v in node.attrs.items()},
        "datasets": {},
        "children": {},
        "type_addr": None,
        "type_id": None,
        "pgs": None,
        "concat": None,
        "other": [],
    }
    for name in node:
        link = node.get(name, getlink=True)
        if not isinstance(link, h5py.HardLink):
            out["other"].append((name, type(link).__name__))
            continue
        item = node[name]
        if isinstance(item, h5py.Dataset):
            out["datasets"][name] = dataset_digest(item)
        elif name == "Type":
            out["type_addr"] = addr_of(item)
            out["type_id"] = decode(item.attrs.get("ID"))
        elif name in CONTAINERS:
            entries = {}
            for child in item:
                clink = item.get(child, getlink=True)
                if isinstance(clink, h5py.HardLink):
                    entries[child] = addr_of(item[child])
                else:
                    entries[child] = type(clink).__name__
            out["children"][name] = entries
        elif name == "PropertyGroups":
            pgs = {}
            for pg in item:
                pgs[pg] = {k: decode(v) for k, v in item[pg].attrs.items()}
            out["pgs"] = pgs
        elif name == "Concatenated Data":
            out["concat"] = snap_concat(item)
        else:
            out["other"].append((name, "group"))
    return out


def snap_concat(group: h5py.Group):
    out = {"attributes": None, "attr_key": None, "index": {}, "data": {}, "datasets": {}, "raw": {}}
    for name in group:
        item = group[name]
        if name in ("Attributes", "Attributes Jsons"):
            raw = item[()]
            out["attr_key"] = name
            try:
                if name == "Attributes":
                    if isinstance(raw, np.ndarray):
                        raw = raw.ravel()[0]
                    text = raw.decode("utf-8") if isinstance(raw, bytes) else str(raw)
                    out["attributes"] = json.loads(text)["Attributes"]
                else:
                    recs = []
                    for val in np.atleast_1d(raw):
                        text = val.decode("utf-8") if isinstance(val, bytes) else str(val)
                        recs.append(json.loads(text))
                    out["attributes"] = recs
            except Exception as exc:
                out["attributes"] = ("undecodable", type(exc).__name__)
        elif name == "Index" and isinstance(item, h5py.Group):
            for label in item:
                rows = item[label][()]
                out["index"][label] = [decode(tuple(r)) for r in np.atleast_1d(rows).tolist()]
        elif name == "Data" and isinstance(item, h5py.Group):
            for label in item:
                out["data"][label] = (str(item[label].dtype), int(item[label].shape[0]) if item[label].shape else 1)
                out["raw"][label] = item[label][()]
        elif isinstance(item, h5py.Dataset):
            out["datasets"][name] = dataset_digest(item)
            out["raw"][name] = item[()]
    return out


def rawsnap(h5file: h5py.File) -> dict:
    """Snapshot of an open h5py.File (or path)."""
    close = False
    if not isinstance(h5file, h5py.File):
        h5file = h5py.File(h5file, "r")
        close = True
    try:
        tops = list(h5file)
        snap = {"tops": tops, "project": None, "header": {}, "root_addr": None, "root_link": None,
                "containers": {}, "types": {}, "extra": [], "missing": []}
        if len(tops) != 1:
            return snap
        proj = h5file[tops[0]]
        snap["project"] = tops[0]
        snap["header"] = {k: decode(v) for k, v in proj.attrs.items()}
        for name in proj:
            link = proj.get(name, getlink=True)
            if name == "Root":
                snap["root_link"] = type(link).__name__
                if isinstance(link, h5py.HardLink):
                    snap["root_addr"] = addr_of(proj[name])
            elif name in CONTAINERS:
                snap["containers"][name] = {
                    uid: snap_node(proj[name][uid], name) for uid in proj[name]
                    if isinstance(proj[name].get(uid, getlink=True), h5py.HardLink)
                    and isinstance(proj[name][uid], h5py.Group)
                }
            elif name == "Types":
                for tname in proj[name]:
                    tgroup = proj[name][tname]
                    snap["types"][tname] = {}
                    for uid in tgroup:
                        node = tgroup[uid]
                        snap["types"][tname][uid] = {
                            "addr": addr_of(node),
                            "attrs": {k: decode(v) for k, v in node.attrs.items()},
                            "datasets": {d: dataset_digest(node[d]) for d in node
                                         if isinstance(node[d], h5py.Dataset)},
                        }
            else:
                snap["extra"].append(name)
        for name in CONTAINERS:
            if name not in snap["containers"]:
                snap["missing"].append(name)
        if "Types" not in proj:
            snap["missing"].append("Types")
        return snap
    finally:
        if close:
            h5file.close()


def node_digests(snap: dict) -> dict:
    """Split digests per stored node: {(container, uid): {attrs, datasets, children, type}}."""
    out = {("header", ""): {"attrs": json.dumps(snap["header"], sort_keys=True, default=str)}}
    for cname, nodes in snap["containers"].items():
        for uid, node in nodes.items():
            out[(cname, uid)] = {
                "attrs": json.dumps(node["attrs"], sort_keys=True, default=str),
                "datasets": json.dumps(node["datasets"], sort_keys=True, default=str),
                "children": json.dumps({k: sorted(v) for k, v in node["children"].items()}, sort_keys=True),
                "type": str(node["type_id"]),
                "pgs": json.dumps(node["pgs"], sort_keys=True, default=str),
                "concat": json.dumps(_concat_digest(node["concat"]), sort_keys=True, default=str),
            }
    for tname, nodes in snap["types"].items():
        for uid, node in nodes.items():
            out[(tname, uid)] = {
                "attrs": json.dumps(node["attrs"], sort_keys=True, default=str),
                "datasets": json.dumps(node["datasets"], sort_keys=True, default=str),
            }
    return out


def _concat_digest(concat):
    if concat is None:
        return None
    return {
        "attributes": concat["attributes"],
        "index": concat["index"],
        "data": {k: hashlib.sha1(np.asarray(v).tobytes() if np.asarray(v).dtype != object
                                 else repr(np.asarray(v).tolist()).encode()).hexdigest()[:12]
                 for k, v in concat["raw"].items()},
    }


def file_sha(path) -> str:
    digest = hashlib.sha256()
    with open(path, "rb") as fh:
        for block in iter(lambda: fh.read(1 << 20), b""):
            digest.update(block)
    return digest.hexdigest()
