"""`values` engine, part 1 (C03): reflectively discovered (class, assignable attribute) pairs and their
value domains; one stored entity, 1-4 assignments, close, fresh open."""
from __future__ import annotations

import uuid as _uuid

import numpy as np
from hypothesis import strategies as st

from .. import env, factory as F
from ..apisnap import canon_value, diff_nodes, entity_attrs, snap_entity, snap_type

# attributes that exist in attribute maps but are not "assign a value to a stored entity" operations
EXCLUDED = {
    "uid": "identifier (C06)", "parent": "re-parenting (C01)", "entity_type": "re-typing",
    "association": "re-typing of data (would invalidate the stored values)", "on_file": "internal flag",
    "property_groups": "edited through property-group operations (C01)", "clipping_ids": "no setter",
    "primitive_type": "fixed at type creation", "concatenated_attributes": "internal (C04)",
    "concatenated_object_ids": "internal (C04)", "property_group_ids": "internal (C04)",
    "image": "raster payload (conversion code, not an attribute write)", "image_data": "derived",
    "image_georeferenced": "derived", "tag": "derived from image", "trace": "derived", "trace_depth": "derived",
    "n_cells": "derived", "n_vertices": "derived", "file_name": "file payload (C08)",
}
TYPE_ATTRS = ["name", "description", "units", "mapping", "hidden", "number_of_bins", "transparent_no_data",
              "color_map", "value_map"]
WS_ATTRS = ["contributors", "distance_unit", "ga_version", "version"]
STRINGS = ["n1", "Ωμέγα", "two words", "x/y", "名前", "a.b", "tab\tsep", "q'uote"]
MAPPINGS = ["linear", "equal_area", "logarithmic", "cdf", "missing"]
PLANNING = ["Default", "Ongoing", "Planned", "Completed", "No status"]

DATA_CLASSES = {"FloatData": "float", "IntegerData": "int", "BooleanData": "bool", "ReferencedData": "ref",
                "TextData": "text"}


# public setters that are views of stored attributes (not listed in any attribute map): Curve.parts re-derives the
# cells, coordinate_reference_system edits the metadata
VIEW_SETTERS = ("parts", "coordinate_reference_system")


def has_setter(cls, name) -> bool:
    prop = getattr(cls, name, None)
    return isinstance(prop, property) and prop.fset is not None


def discover_pairs(object_classes=None, group_classes=None):
    """All (owner kind, class name, attribute) pairs with a property setter."""
    from geoh5py import data as gdata

    pairs = []
    for cname in (object_classes or F.OBJECT_CLASSES):
        cls = F.get_class(cname)
        for attr in entity_attrs(cls):
            if attr not in EXCLUDED and has_setter(cls, attr):
                pairs.append(("object", cname, attr))
        pairs += [("object", cname, attr) for attr in VIEW_SETTERS if has_setter(cls, attr)]
    for cname in (group_classes or F.GROUP_CLASSES + ["DrillholeGroup"]):
        cls = F.get_class(cname)
        for attr in entity_attrs(cls):
            if attr not in EXCLUDED and has_setter(cls, attr):
                pairs.append(("group", cname, attr))
        pairs += [("group", cname, attr) for attr in VIEW_SETTERS if has_setter(cls, attr)]
    for cname in DATA_CLASSES:
        cls = getattr(gdata, cname)
        for attr in entity_attrs(cls):
            if attr not in EXCLUDED and has_setter(cls, attr):
                pairs.append(("data", cname, attr))
    # concatenated storage: a drillhole of a drillhole group and a depth log on it
    cls = F.get_class("Drillhole")
    pairs += [("cobject", "Drillhole", attr) for attr in entity_attrs(cls) if attr not in EXCLUDED and has_setter(cls, attr)]
    cls = getattr(gdata, "FloatData")
    pairs += [("cdata", "FloatData", attr) for attr in entity_attrs(cls) if attr not in EXCLUDED and has_setter(cls, attr)]
    for owner, cname in (("objtype", "Points"), ("grouptype", "ContainerGroup")):
        for attr in ("name", "description"):
            pairs.append((owner, cname, attr))
    for cname in DATA_CLASSES:
        for attr in TYPE_ATTRS:
            if attr == "value_map" and cname not in ("ReferencedData",):
                continue
            pairs.append(("datatype", cname, attr))
    for attr in WS_ATTRS:
        pairs.append(("workspace", "Workspace", attr))
    return pairs


# ----------------------------------------------------------------------------- value domains
def flat(value):
    """Flatten any value to a list of python scalars for semantic comparison."""
    out = []

    def rec(v):
        if v is None or isinstance(v, (str, bool)):
            out.append(v)
        elif isinstance(v, (int, np.integer)):
            out.append(float(v))
        elif isinstance(v, (float, np.floating)):
            out.append("NaN" if v != v else float(v))
        elif isinstance(v, bytes):
            out.append(v.decode("utf-8", "replace"))
        elif isinstance(v, _uuid.UUID):
            out.append(str(v))
        elif isinstance(v, np.ndarray):
            if v.dtype.names:
                for row in v.tolist() if v.ndim else [v.tolist()]:
                    rec(row)
            else:
                for item in v.ravel().tolist():
                    rec(item)
        elif isinstance(v, dict):
            for key in sorted(v, key=str):
                out.append(str(key))
                rec(v[key])
        elif isinstance(v, (list, tuple)):
            for item in v:
                rec(item)
        elif hasattr(v, "map") and isinstance(getattr(v, "map"), dict):  # ReferenceValueMap
            rec({int(k): s for k, s in v.map.items()})
        elif hasattr(v, "values") and hasattr(v, "name") and type(v).__name__ == "ColorMap":
            out.append(v.name)
            rec(v.values)
        else:
            out.append(repr(v))

    rec(value)
    return out


NONE = object()  # "assign None" (an accepted value for some attributes), as opposed to "no value domain known"


def make_value(owner, cname, attr, seed, ent):
    """Return (value, expected_flat or None) for an assignment; None value => no domain known."""
    s = [int(v) for v in seed] or [1]
    pick = lambda i: s[i % len(s)]  # noqa: E731
    cur = None
    try:
        cur = getattr(ent, attr)
    except Exception:
        pass
    mode = None
    if s and s[0] == 0:
        mode = "zero"  # the falsy / default value of the domain (a reset is an assignment like any other)
    elif s and s[0] == 100:
        mode = "int"  # whole number given as a Python int where the setter takes int or float
    if mode == "zero":
        zero = {"rotation": 0.0, "dip": 0.0, "cost": 0.0, "end_of_hole": 0.0, "origin": [0.0, 0.0, 0.0],
                "collar": [0.0, 0.0, 0.0], "name": "", "description": "", "last_focus": "", "units": "",
                "metadata": None, "options": {}, "number_of_bins": None}
        if attr == "color_map":
            return NONE, None  # removing the colour map is an assignment like any other
        if attr in zero:
            if attr == "metadata" and ("survey" in type(ent).__module__ or cur is None):
                return None, None
            return zero[attr], (None if attr != "metadata" else [None])
    if mode == "int":
        ints = {"rotation": 30, "dip": 45, "cost": 7, "end_of_hole": 120, "version": 2}
        if attr in ints and ints[attr] is not None and not (attr in ("rotation",) and cname in ("BlockModel", "Octree") and False):
            return ints[attr], None
    if attr in ("allow_delete", "allow_move", "allow_rename", "public", "visible", "partially_hidden",
                "modifiable", "hidden", "transparent_no_data"):
        val = (not bool(cur)) if pick(0) % 3 else bool(cur)
        return val, None
    if attr == "vertical":
        return (not bool(cur)), None
    if attr in ("name", "description", "units", "last_focus", "distance_unit", "ga_version"):
        return STRINGS[pick(0) % len(STRINGS)] + str(abs(pick(1)) % 3), None
    if attr == "mapping":
        return MAPPINGS[pick(0) % len(MAPPINGS)], None
    if attr == "planning":
        return PLANNING[pick(0) % len(PLANNING)], None
    if attr == "number_of_bins":
        return 1 + abs(pick(0)), None
    if attr in ("origin", "collar"):
        return [pick(0) / 2.0, pick(1) / 2.0, pick(2) / 4.0], None
    if attr in ("rotation", "dip"):
        val = float((pick(0) % 12) * 7.5)
        if attr == "dip" and val == 90.0:
            val = 45.0
        return val, None
    if attr in ("cost", "end_of_hole", "default_collocation_distance"):
        return float(1 + abs(pick(0))) / 4.0, None
    if attr in ("u_cell_size", "v_cell_size", "w_cell_size"):
        return float(1 + abs(pick(0)) % 5) / 2.0 * (-1.0 if pick(1) % 4 == 0 else 1.0), None
    if attr in ("u_count", "v_count", "w_count"):
        if cname == "Octree":
            return 2 ** (1 + abs(pick(0)) % 3), None
        return 1 + abs(pick(0)) % 6, None
    if attr in ("u_cell_delimiters", "v_cell_delimiters", "z_cell_delimiters"):
        n = len(cur) if cur is not None else 3
        steps = [(1 + abs(pick(i)) % 4) / 2.0 for i in range(n - 1)]
        arr = np.r_[0.0, np.cumsum(steps)]
        if attr.startswith("z") and pick(0) % 2:
            arr = -arr
        return arr, None
    if attr == "vertices":
        n = cur.shape[0] if cur is not None else 3
        extra = abs(pick(0)) % 2
        return F.lattice(s, n + extra, offset=1), None
    if attr == "cells":
        if cur is None:
            return None, None
        n_vert = ent.n_vertices or 0
        if n_vert == 0:
            return None, None
        width = cur.shape[1]
        rows = cur.shape[0] + abs(pick(0)) % 2
        arr = np.asarray([[(pick(r * width + c) + r) % n_vert for c in range(width)] for r in range(rows)],
                         dtype="uint32")
        return arr, None
    if attr == "coordinate_reference_system":
        return {"Code": f"EPSG:{26900 + abs(pick(0))}", "Name": STRINGS[pick(1) % len(STRINGS)]}, None
    if attr == "parts":
        n_vert = ent.n_vertices or 0
        return (np.asarray([pick(i) % 2 for i in range(n_vert)], dtype="int32") if n_vert else None), "skip-getter"
    if attr == "octree_cells":
        nu, nv, nw = 1 + abs(pick(0)) % 2, 1 + abs(pick(1)) % 2, 1
        return np.asarray([[i, j, k, 1] for k in range(nw) for j in range(nv) for i in range(nu)], dtype="int32"), None
    if attr in ("layers", "prisms"):
        if cur is None:
            return None, None
        arr = np.array(cur, dtype=float)
        if attr == "layers":
            arr[:, 2] = arr[:, 2] - (1 + abs(pick(0)) % 3) / 2.0
        else:
            arr[:, 0] = arr[:, 0] + (1 + abs(pick(0)) % 3) / 2.0
            arr[:, 2] = arr[:, 2] + abs(pick(1)) / 4.0
        return arr, None
    if attr == "surveys":
        rows = 1 + abs(pick(0)) % 3
        return np.asarray([[5.0 * j + 0.5, float((pick(j) % 12) * 30), float(-90 + (abs(pick(j + 1)) % 4) * 15)]
                           for j in range(rows)]), None
    if attr == "current_line_id":
        return _uuid.UUID(int=(abs(pick(0)) + 1) * 0x1234567890ABCDEF1234567890ABCDEF % (1 << 128), version=4), None
    if attr == "metadata":
        val = {"k" + str(abs(pick(0)) % 3): pick(1), "s": STRINGS[pick(2) % len(STRINGS)]}
        if isinstance(cur, dict):
            exp = dict(cur)
            exp.update(val)  # documented: the setter updates an existing dictionary
            return val, flat(exp)
        return val, None
    if attr == "options":
        return {"title": STRINGS[pick(0) % len(STRINGS)], "n": pick(1), "flag": bool(pick(2) % 2)}, None
    if attr == "values":
        kind = DATA_CLASSES.get(cname)
        if kind is None:
            return None, None
        count = ent.n_values or 1
        vals = [pick(i) if (pick(i + 1) % 5) else None for i in range(count)]
        if kind == "text":
            vals = [v if v is not None else 0 for v in vals]
            if count == 1:
                return None, None
        arr, exp = F.make_values(kind, vals, count)
        return arr, [("NaN" if e == "NaN" else (float(e) if isinstance(e, (int, float)) and not isinstance(e, bool) else e)) for e in exp]
    if attr == "color_map":
        n = 2 + abs(pick(0)) % 3
        rows = [[float(i) + pick(i) / 8.0] + [abs(pick(i + k)) * 20 % 256 for k in range(1, 5)] for i in range(n)]
        return np.asarray(rows, dtype=float), "colormap"
    if attr == "value_map":
        return {1: STRINGS[pick(0) % len(STRINGS)], 2 + abs(pick(1)) % 5: "B" + str(pick(2))}, "valuemap"
    if attr == "contributors":
        return [STRINGS[pick(0) % len(STRINGS)], "second"], None
    if attr == "version":
        return (2.0 if float(cur) not in (2.0,) else 2.1), None
    # fall-back by current value type (attributes a future change adds)
    if isinstance(cur, bool):
        return (not cur), None
    if isinstance(cur, str):
        return cur + "_x", None
    if isinstance(cur, float):
        return cur + 1.5, None
    return None, None


INT_AT_CREATION = {"rotation": 30, "dip": 45, "cost": 7, "end_of_hole": 120}


def build_owner(ws, owner, cname, geom, extra=None):
    """Create a stored entity of the requested class; returns (entity, target) where target is the object whose
    attribute is assigned (the entity itself, its type, or the workspace)."""
    from geoh5py.groups import ContainerGroup
    from geoh5py.objects import Points

    if owner == "workspace":
        return None, ws
    if owner in ("object", "objtype"):
        cls = F.get_class(cname)
        kwargs = F.object_kwargs(cname, geom)
        kwargs.update(extra or {})
        ent = cls.create(ws, name="target", **kwargs)
        # a sibling of the same class makes lost/misrouted writes visible
        return ent, (ent.entity_type if owner == "objtype" else ent)
    if owner in ("cobject", "cdata"):
        from geoh5py.groups import DrillholeGroup
        from geoh5py.objects import Drillhole

        grp = DrillholeGroup.create(ws, name="holes")
        other = Drillhole.create(ws, parent=grp, name="other", collar=[5.0, 0.0, 0.0],
                                 surveys=np.asarray([[0.0, 0.0, -90.0], [30.0, 0.0, -90.0]]))
        other.add_data({"target": {"depth": np.asarray([1.0, 2.0]), "values": np.asarray([7.0, 8.0])}})
        hole = Drillhole.create(ws, parent=grp, name="target", collar=[0.0, 0.0, 0.0],
                                surveys=np.asarray([[0.0, 0.0, -90.0], [30.0, 10.0, -80.0]]), **(extra or {}))
        log = hole.add_data({"target": {"depth": np.asarray([1.0, 2.0, 3.0]), "values": np.asarray([4.0, 5.0, 6.0])}})
        ent = hole if owner == "cobject" else log
        return ent, ent
    if owner in ("group", "grouptype"):
        cls = F.get_class(cname)
        ent = cls.create(ws, name="target")
        return ent, (ent.entity_type if owner == "grouptype" else ent)
    # data / datatype
    kind = DATA_CLASSES[cname]
    host = Points.create(ws, name="host", vertices=F.lattice(geom.get("g", [1, 2, 3]), max(2, geom.get("n", 3))))
    count = host.n_vertices
    arr, _ = F.make_values(kind, list(range(1, count + 1)), count)
    ent = host.add_data({"target": F.data_spec(kind, "VERTEX", arr)})
    return ent, (ent.entity_type if owner == "datatype" else ent)


@st.composite
def assignment_program(draw, pairs_by_class):
    key = draw(st.sampled_from(sorted(pairs_by_class)))
    owner, cname = key
    attrs = pairs_by_class[key]
    n = draw(st.integers(1, min(4, len(attrs))))
    chosen = draw(st.lists(st.sampled_from(attrs), min_size=n, max_size=n, unique=True))
    return {
        "owner": owner, "cls": cname,
        "geom": {"n": draw(st.integers(2, 5)), "g": draw(st.lists(st.integers(-9, 9), min_size=3, max_size=10))},
        "ops": [{"attr": a, "seed": draw(st.lists(st.integers(-9, 9), min_size=1, max_size=6)),
                 "inplace": draw(st.integers(0, 3)) == 0} for a in chosen],
        "reload_first": draw(st.booleans()), "blind": draw(st.integers(0, 3)) == 0,
    }
