"""Engine `geom`: strategies and reference formulas for derived geometry (C17) and drillhole paths (C18).

Everything under "reference formulas" is plain Python/NumPy written from the format documentation
(`docs/content/geoh5_format/analyst/objects.rst`) and from the property statements.  Nothing here imports
geoh5py: the references never call the functions under test.

Conventions taken from the documentation
* Block model:  ``cell index = k + i*nZ + j*nU*nZ``; U east, V north, Z up without rotation; `Rotation` is the
  counter-clockwise angle (degrees) about the vertical axis at the origin; delimiters are distances of the cell
  edges from the origin (first value 0), so a cell centre is the mid-point of two consecutive delimiters.
* 2D grid:  ``cell index = i + j*nU``; uniform cells; `Vertical` true means the V axis is vertical, which is the
  same as a dip of +90 degrees: the dip therefore rotates the V axis upwards about U (Rx(+dip)) *before* the
  rotation about the vertical axis (the rotation is "around the vertical axis at the Origin").
* Octree: records (I, J, K, NCells) give the position and size of a cell in base cells; the centre is
  ((I + N/2)*du, (J + N/2)*dv, (K + N/2)*dw) rotated about the vertical axis at the origin.
* Drillhole: azimuth in degrees clockwise from north, dip in degrees from horizontal, negative downwards
  (user guide: dips of -89..-75 for a hole going down; a hole without surveys is [0, 0, -90] = straight down).
"""
from __future__ import annotations

import math

import numpy as np

# =============================================================================== reference formulas


def rz(deg: float) -> np.ndarray:
    """Counter-clockwise rotation about the vertical axis."""
    a = math.radians(deg)
    c, s = math.cos(a), math.sin(a)
    return np.array([[c, -s, 0.0], [s, c, 0.0], [0.0, 0.0, 1.0]])


def rx(deg: float) -> np.ndarray:
    """Rotation about the U (x) axis lifting +V towards +Z."""
    a = math.radians(deg)
    c, s = math.cos(a), math.sin(a)
    return np.array([[1.0, 0.0, 0.0], [0.0, c, -s], [0.0, s, c]])


def _mid(delims):
    d = [float(v) for v in delims]
    return [(d[i] + d[i + 1]) / 2.0 for i in range(len(d) - 1)]


def ref_block_centroids(origin, rotation, du, dv, dz) -> np.ndarray:
    """Block model centres in storage order: cell (i, j, k) sits at index k + i*nZ + j*nU*nZ."""
    mu, mv, mz = _mid(du), _mid(dv), _mid(dz)
    n_u, n_v, n_z = len(mu), len(mv), len(mz)
    out = np.zeros((n_u * n_v * n_z, 3))
    rot = rz(rotation)
    org = np.asarray(origin, dtype=float)
    for j in range(n_v):
        for i in range(n_u):
            for k in range(n_z):
                out[k + i * n_z + j * n_u * n_z] = org + rot @ np.array([mu[i], mv[j], mz[k]])
    return out


def ref_grid_centroids(origin, rotation, dip, n_u, n_v, s_u, s_v) -> np.ndarray:
    """2D grid centres in storage order: cell (i, j) sits at index i + j*nU."""
    out = np.zeros((n_u * n_v, 3))
    mat = rz(rotation) @ rx(dip)
    org = np.asarray(origin, dtype=float)
    for j in range(n_v):
        for i in range(n_u):
            out[i + j * n_u] = org + mat @ np.array([(i + 0.5) * s_u, (j + 0.5) * s_v, 0.0])
    return out


def ref_octree_centroids(origin, rotation, records, s_u, s_v, s_w) -> np.ndarray:
    out = np.zeros((len(records), 3))
    rot = rz(rotation)
    org = np.asarray(origin, dtype=float)
    for n, (i, j, k, size) in enumerate(records):
        local = np.array([(i + size / 2.0) * s_u, (j + size / 2.0) * s_v, (k + size / 2.0) * s_w])
        out[n] = org + rot @ local
    return out


def octree_tiling_errors(records, n_u, n_v, n_w) -> list:
    """Empty list iff the records cover every base cell of the n_u x n_v x n_w grid exactly once."""
    cover = np.zeros((n_u, n_v, n_w), dtype=int)
    errors = []
    for i, j, k, size in records:
        if size < 1 or i < 0 or j < 0 or k < 0 or i + size > n_u or j + size > n_v or k + size > n_w:
            errors.append(f"record {(i, j, k, size)} outside the {n_u}x{n_v}x{n_w} base grid")
            continue
        cover[i:i + size, j:j + size, k:k + size] += 1
    if (cover == 0).any():
        errors.append(f"{int((cover == 0).sum())} base cells not covered")
    if (cover > 1).any():
        errors.append(f"{int((cover > 1).sum())} base cells covered more than once")
    return errors


def default_octree_records(n_u, n_v, n_w) -> list:
    """A valid coarse tiling (cubes of the smallest count) used as the seed of explicit record sets."""
    size = min(n_u, n_v, n_w)
    return [[i, j, k, size] for k in range(0, n_w, size) for j in range(0, n_v, size) for i in range(0, n_u, size)]


# ---- curves
def ref_segments_from_parts(labels) -> set:
    """{(a, b)}: a < b consecutive among the vertices that carry the same part label."""
    last = {}
    segments = set()
    for idx, lab in enumerate(labels):
        if lab in last:
            segments.add((last[lab], idx))
        last[lab] = idx
    return segments


def components(n: int, cells) -> list:
    """Connected-component id per vertex (union-find over the segments)."""
    parent = list(range(n))

    def find(a):
        while parent[a] != a:
            parent[a] = parent[parent[a]]
            a = parent[a]
        return a

    for a, b in cells:
        ra, rb = find(int(a)), find(int(b))
        if ra != rb:
            parent[max(ra, rb)] = min(ra, rb)
    return [find(a) for a in range(n)]


def same_partition(labels_a, labels_b, subset=None) -> bool:
    """True iff both labelings induce the same partition (on `subset` of the indices if given)."""
    idx = list(range(len(labels_a))) if subset is None else list(subset)
    fwd, bwd = {}, {}
    for i in idx:
        a, b = labels_a[i], labels_b[i]
        if fwd.setdefault(a, b) != b or bwd.setdefault(b, a) != a:
            return False
    return True


def chain_ordered(cells) -> bool:
    """Segments listed part after part, each part as a run (a,b),(b,c),...; distinct runs never touch."""
    runs, current = [], []
    for a, b in cells:
        if current and current[-1][1] == a:
            current.append((a, b))
        else:
            if current:
                runs.append(current)
            current = [(a, b)]
    if current:
        runs.append(current)
    seen = set()
    for run in runs:
        verts = {v for seg in run for v in seg}
        if verts & seen:
            return False
        seen |= verts
    return True


# ---- drillholes
def unit_direction(azimuth: float, dip: float):
    """Unit vector for an azimuth (deg clockwise from north) and dip (deg from horizontal, negative down)."""
    az, dp = math.radians(azimuth), math.radians(dip)
    return np.array([math.sin(az) * math.cos(dp), math.cos(az) * math.cos(dp), math.sin(dp)])


class RefPath:
    """Reference desurvey (pure Python) from a collar and a survey table [[depth, azimuth, dip], ...].

    Stations: a virtual station at depth 0 with the direction of the first survey (the only direction known
    there), then the table.  Inside leg (a, b) the path moves along the mean of the two station directions.
    Beyond the last station the last direction continues; which vector that is is not pinned by the statement,
    so `beyond_candidates` lists the defensible readings (mean direction of the last leg, direction of the last
    station and, when the last leg has zero length, the direction of the station before it).
    """

    def __init__(self, collar, table):
        self.collar = np.array([float(v) for v in collar])
        rows = [[float(v) for v in row] for row in table]
        self.depth = [0.0] + [r[0] for r in rows]
        first = rows[0]
        self.dirs = [unit_direction(first[1], first[2])] + [unit_direction(r[1], r[2]) for r in rows]
        self.pos = [self.collar.copy()]
        self.leg_dir = []
        for k in range(len(self.depth) - 1):
            mean = (self.dirs[k] + self.dirs[k + 1]) / 2.0
            self.leg_dir.append(mean)
            self.pos.append(self.pos[k] + (self.depth[k + 1] - self.depth[k]) * mean)
        self.end = self.depth[-1]
        cands = [self.leg_dir[-1], self.dirs[-1]]
        if self.depth[-1] == self.depth[-2]:
            cands.append(self.dirs[-2])
        self.beyond_candidates = cands

    def region(self, d: float) -> str:
        if d == 0:
            return "collar"
        if d > self.end:
            return "beyond"
        if d in self.depth:
            return "station"
        if d < self.depth[1]:
            return "first-leg"
        return "leg"

    def leg_of(self, d: float) -> int:
        """Index k of the leg with depth[k] < d <= depth[k+1] (d in (0, end])."""
        for k in range(len(self.depth) - 1):
            if self.depth[k] < d <= self.depth[k + 1]:
                return k
        raise ValueError(d)

    def positions(self, d: float) -> list:
        """Acceptable positions for depth d >= 0 (one, except beyond the end)."""
        if d <= 0:
            return [self.collar.copy()]
        if d > self.end:
            return [self.pos[-1] + (d - self.end) * w for w in self.beyond_candidates]
        k = self.leg_of(d)
        return [self.pos[k] + (d - self.depth[k]) * self.leg_dir[k]]

    def distance(self, d: float, xyz) -> float:
        xyz = np.asarray(xyz, dtype=float)
        return min(float(np.max(np.abs(xyz - p))) for p in self.positions(d))

    def distinct_directions(self) -> int:
        keys = {tuple(np.round(u, 9)) for u in self.dirs[1:]}
        return len(keys)


# =============================================================================== strategies (C17)
def _st():
    from hypothesis import strategies as st

    return st


ALLOW_KNOWN = [False] * 9 + [True]  # ~10 % of the programs run without the guards of known findings
EXACT_ANGLES = [0.0, 30.0, 45.0, 90.0, -90.0, 180.0, 270.0, 360.0, -45.0, 15.0, 120.0, 720.0]
EXACT_DIPS = [0.0, 30.0, 45.0, 60.0, 90.0, -30.0, -90.0, 15.0]
STEPS = [0.25, 0.5, 1.0, 2.0, 2.5, 10.0]


def angle_strategy(pool):
    st = _st()
    return st.one_of(st.sampled_from(pool), st.sampled_from(pool),
                     st.floats(-720.0, 720.0, allow_nan=False, allow_infinity=False).map(lambda v: round(v, 6)))


def origin_strategy():
    st = _st()
    coord = st.one_of(st.integers(-40, 40).map(lambda v: v / 2.0),
                      st.floats(-1e4, 1e4, allow_nan=False, allow_infinity=False).map(lambda v: round(v, 4)))
    return st.lists(coord, min_size=3, max_size=3)


def delimiters_strategy():
    """Monotone delimiters starting at 0, increasing or decreasing, 1-5 cells."""
    st = _st()
    step = st.one_of(st.sampled_from(STEPS), st.floats(0.01, 50.0, allow_nan=False).map(lambda v: round(v, 5)))

    def build(args):
        steps, sign = args
        out, acc = [0.0], 0.0
        for s in steps:
            acc += s
            out.append(sign * acc)
        return out

    return st.tuples(st.lists(step, min_size=1, max_size=5), st.sampled_from([1.0, 1.0, -1.0])).map(build)


def cell_size_strategy(signed=True):
    st = _st()
    mag = st.one_of(st.sampled_from(STEPS), st.floats(0.01, 100.0, allow_nan=False).map(lambda v: round(v, 5)))
    if not signed:
        return mag
    return st.tuples(mag, st.sampled_from([1.0, 1.0, 1.0, -1.0])).map(lambda t: t[0] * t[1])


def octree_records_strategy(n_u, n_v, n_w):
    """Valid explicit record sets: the coarse tiling with 0-4 cells split into octants, then permuted."""
    st = _st()

    @st.composite
    def build(draw):
        records = default_octree_records(n_u, n_v, n_w)
        for _ in range(draw(st.integers(0, 4))):
            splittable = [n for n, r in enumerate(records) if r[3] > 1]
            if not splittable:
                break
            pick = splittable[draw(st.integers(0, len(splittable) - 1))]
            i, j, k, size = records.pop(pick)
            half = size // 2
            records.extend([[i + a * half, j + b * half, k + c * half, half]
                            for c in (0, 1) for b in (0, 1) for a in (0, 1)])
        if len(records) > 1 and draw(st.booleans()):
            records = draw(st.permutations(records))
        return [list(r) for r in records]

    return build()


def _maybe(strategy, p_none=0.3):
    """None (= argument omitted at creation) about a third (default) or a quarter of the time."""
    st = _st()
    if p_none >= 0.3:
        return st.one_of(st.none(), strategy, strategy)
    return st.one_of(strategy, strategy, strategy, st.none())


def grid_program_strategy(max_ops=5):
    """Programs for BlockModel / Grid2D / Octree: creation arguments + setter/read history."""
    st = _st()
    pow2 = st.sampled_from([1, 2, 4, 8, 16])

    @st.composite
    def block(draw):
        create = {
            "origin": draw(_maybe(origin_strategy())),
            "rotation": draw(_maybe(angle_strategy(EXACT_ANGLES), 0.2)),
            "u_cell_delimiters": draw(delimiters_strategy()),
            "v_cell_delimiters": draw(delimiters_strategy()),
            "z_cell_delimiters": draw(delimiters_strategy()),
        }
        setter = st.one_of(
            st.tuples(st.just("origin"), origin_strategy()),
            st.tuples(st.just("rotation"), angle_strategy(EXACT_ANGLES)),
            st.tuples(st.sampled_from(["u_cell_delimiters", "v_cell_delimiters", "z_cell_delimiters"]),
                      delimiters_strategy()),
        )
        return "BlockModel", create, setter

    @st.composite
    def grid(draw):
        create = {
            "origin": draw(_maybe(origin_strategy())),
            "u_count": draw(st.integers(1, 6)),
            "v_count": draw(st.integers(1, 6)),
            "u_cell_size": draw(cell_size_strategy()),
            "v_cell_size": draw(cell_size_strategy()),
            "rotation": draw(_maybe(angle_strategy(EXACT_ANGLES), 0.2)),
            "dip": draw(_maybe(angle_strategy(EXACT_DIPS))),
            "vertical": draw(st.sampled_from([None, None, None, True, False])),
            # how truth values are handed to the `vertical` attribute: the Python singletons, 0 / 1, NumPy booleans
            "vertical_as": draw(st.sampled_from(["bool", "bool", "int", "np"])),
        }
        setter = st.one_of(
            st.tuples(st.just("origin"), origin_strategy()),
            st.tuples(st.just("rotation"), angle_strategy(EXACT_ANGLES)),
            st.tuples(st.just("dip"), angle_strategy(EXACT_DIPS)),
            st.tuples(st.just("vertical"), st.booleans()),
            st.tuples(st.sampled_from(["u_count", "v_count"]), st.integers(1, 6)),
            st.tuples(st.sampled_from(["u_cell_size", "v_cell_size"]), cell_size_strategy()),
        )
        return "Grid2D", create, setter

    @st.composite
    def octree(draw):
        n_u, n_v, n_w = draw(pow2), draw(pow2), draw(pow2)
        base_tiles = (n_u * n_v * n_w) // (min(n_u, n_v, n_w) ** 3)
        records = None
        if base_tiles <= 64 and draw(st.booleans()):
            records = draw(octree_records_strategy(n_u, n_v, n_w))
        create = {
            "origin": draw(_maybe(origin_strategy())),
            "u_count": n_u, "v_count": n_v, "w_count": n_w,
            "u_cell_size": draw(cell_size_strategy()),
            "v_cell_size": draw(cell_size_strategy()),
            "w_cell_size": draw(cell_size_strategy()),
            "rotation": draw(_maybe(angle_strategy(EXACT_ANGLES), 0.2)),
            "octree_cells": records,
        }
        setters = [
            st.tuples(st.just("origin"), origin_strategy()),
            st.tuples(st.just("rotation"), angle_strategy(EXACT_ANGLES)),
            st.tuples(st.sampled_from(["u_cell_size", "v_cell_size", "w_cell_size"]), cell_size_strategy()),
            st.tuples(st.sampled_from(["u_count", "v_count", "w_count"]), pow2),
        ]
        if base_tiles <= 64:
            setters.append(st.tuples(st.just("octree_cells"), octree_records_strategy(n_u, n_v, n_w)))
        return "Octree", create, st.one_of(*setters)

    @st.composite
    def program(draw):
        cls, create, setter = draw(st.one_of(block(), grid(), grid(), octree()))
        ops = []
        if draw(st.integers(0, 3)) > 0:
            ops.append({"op": "read"})
        for _ in range(draw(st.integers(0, max_ops))):
            attr, value = draw(setter)
            ops.append({"op": "set", "attr": attr, "value": value})
            if draw(st.integers(0, 3)) > 0:
                ops.append({"op": "read"})
        if not ops or ops[-1]["op"] != "read":
            ops.append({"op": "read"})
        return {"cls": cls, "create": create, "ops": ops, "allow_known": draw(st.sampled_from(ALLOW_KNOWN))}

    return program()


def curve_program_strategy(max_ops=5):
    st = _st()

    @st.composite
    def labels(draw, n):
        n_labels = draw(st.integers(1, max(1, min(n, 4))))
        pool = draw(st.lists(st.integers(-3, 40), min_size=n_labels, max_size=n_labels, unique=True))
        style = draw(st.sampled_from(["blocks", "any", "any"]))
        if style == "blocks":  # contiguous runs, labels possibly reused later (non-contiguous parts)
            out = []
            while len(out) < n:
                out.extend([draw(st.sampled_from(pool))] * draw(st.integers(1, 4)))
            return out[:n]
        return [draw(st.sampled_from(pool)) for _ in range(n)]

    @st.composite
    def cells(draw, n):
        style = draw(st.sampled_from(["chains", "chains", "any"]))
        if style == "chains":  # disjoint paths over a permutation of (a subset of) the vertices, in order
            order = draw(st.permutations(list(range(n)))) if draw(st.booleans()) else list(range(n))
            order = order[: draw(st.integers(2, n))]
            out, pos = [], 0
            while pos < len(order) - 1:
                length = draw(st.integers(1, 4))
                chunk = order[pos: pos + length + 1]
                out.extend([[chunk[i], chunk[i + 1]] for i in range(len(chunk) - 1)])
                pos += length + 1
            if not out:
                out = [[order[0], order[1]]]
            return out, "chains"
        count = draw(st.integers(1, n + 2))
        out = []
        for _ in range(count):
            a = draw(st.integers(0, n - 1))
            b = draw(st.integers(0, n - 2))
            out.append([a, b if b < a else b + 1])
        return out, "any"

    @st.composite
    def program(draw):
        n = draw(st.integers(2, 10))
        mode = draw(st.sampled_from(["parts", "parts", "cells", "cells", "none"]))
        create = {"n": n, "mode": mode}
        if mode == "parts":
            create["labels"] = draw(labels(n))
        elif mode == "cells":
            create["cells"], create["style"] = draw(cells(n))
        ops = [{"op": draw(st.sampled_from(["read_cells", "read_parts"]))}]
        for _ in range(draw(st.integers(0, max_ops))):
            kind = draw(st.sampled_from(["read_cells", "read_parts", "read_parts", "set_parts", "set_cells",
                                         "reassign_parts"]))
            if kind == "set_parts":
                ops.append({"op": "set_parts", "labels": draw(labels(n))})
            elif kind == "set_cells":
                value, style = draw(cells(n))
                ops.append({"op": "set_cells", "cells": value, "style": style})
            else:
                ops.append({"op": kind})
        ops.append({"op": "read_cells"})
        ops.append({"op": "read_parts"})
        return {"cls": "Curve", "create": create, "ops": ops, "allow_known": draw(st.sampled_from(ALLOW_KNOWN))}

    return program()


# =============================================================================== strategies (C18)
AZIMUTHS = [0.0, 45.0, 90.0, 135.0, 180.0, 270.0, 359.5, 360.0, 400.0, -30.0, -90.0, 725.0]
DIPS = [-90.0, -89.0, -60.0, -45.0, -30.0, 0.0, 30.0, 90.0]
DEPTH_STEPS = [0.25, 1.0, 5.0, 10.0, 12.5, 50.0]
OFFSETS = [0.0, 0.0, 0.0004, -0.0004, 0.004, -0.004, 0.02, -0.02, 0.06, -0.06]
TOLERANCES = [None, None, 1e-4, 1e-3, 1e-2, 5e-2]
KINDS = ["float", "float", "int", "text"]


def survey_strategy():
    st = _st()
    az = st.one_of(st.sampled_from(AZIMUTHS), st.floats(-720.0, 1080.0, allow_nan=False).map(lambda v: round(v, 3)))
    dip = st.one_of(st.sampled_from(DIPS), st.floats(-90.0, 90.0, allow_nan=False).map(lambda v: round(v, 3)))
    first = st.one_of(st.just(0.0), st.just(0.0), st.sampled_from([0.5, 2.0, 10.0]),
                      st.floats(0.0, 30.0, allow_nan=False).map(lambda v: round(v, 3)))
    step = st.one_of(st.just(0.0), st.sampled_from(DEPTH_STEPS), st.sampled_from(DEPTH_STEPS),
                     st.sampled_from(DEPTH_STEPS), st.floats(0.01, 100.0, allow_nan=False).map(lambda v: round(v, 3)))

    @st.composite
    def table(draw):
        n = draw(st.integers(1, 8))
        depth = draw(first)
        same_dir = draw(st.integers(0, 6)) == 0
        fixed = (draw(az), draw(dip))
        rows = []
        for k in range(n):
            if k:
                depth = round(depth + draw(step), 3)
            a, d = fixed if same_dir else (draw(az), draw(dip))
            rows.append([depth, a, d])
        return rows

    return table()


def drillhole_program_strategy(max_adds=6):
    st = _st()

    # depths live on a lattice of spacing `scale` (>= 0.25) plus a small offset: entries of one call are always
    # farther apart than any tolerance, entries of different calls collide often (collocation inside / outside)
    @st.composite
    def depth_items(draw, scale):
        count = draw(st.integers(1, 5))
        bases = draw(st.lists(st.integers(0, 40), min_size=count, max_size=count, unique=True))
        items = []
        for base in bases:
            off = draw(st.sampled_from(OFFSETS))
            items.append([round(max(0.0, base * scale + off), 6), draw(st.integers(-99, 99))])
        return items

    @st.composite
    def interval_items(draw, scale):
        count = draw(st.integers(1, 5))
        pairs = draw(st.lists(st.tuples(st.integers(0, 30), st.integers(1, 8)), min_size=count, max_size=count,
                              unique=True))
        items = []
        for base, length in pairs:
            start = round(max(0.0, base * scale + draw(st.sampled_from(OFFSETS))), 6)
            stop = round((base + length) * scale + draw(st.sampled_from(OFFSETS)), 6)
            items.append([start, stop, draw(st.integers(-99, 99))])
        return items

    @st.composite
    def program(draw):
        table = draw(survey_strategy())
        scale = draw(st.sampled_from([0.25, 1.0, 2.5]))
        ops = []
        coord = st.one_of(st.integers(-2000, 2000).map(lambda v: v / 2.0),
                          st.floats(-1e4, 1e4, allow_nan=False).map(lambda v: round(v, 3)))
        # the station cache must follow the collar / surveys setters (before any data exist)
        for _ in range(draw(st.sampled_from([0, 0, 0, 1, 2]))):
            if draw(st.booleans()):
                ops.append({"op": "set_collar", "value": draw(st.lists(coord, min_size=3, max_size=3))})
            else:
                ops.append({"op": "set_surveys", "table": draw(survey_strategy())})
            ops.append({"op": "query"})
        if draw(st.booleans()):
            ops.append({"op": "query"})
        n_adds = draw(st.integers(1, max_adds))
        for n in range(n_adds):
            kind = draw(st.sampled_from(KINDS))
            tol = draw(st.sampled_from(TOLERANCES))
            if draw(st.booleans()):
                ops.append({"op": "add_depth", "name": f"d{n}", "kind": kind, "tol": tol,
                            "items": draw(depth_items(scale))})
            else:
                ops.append({"op": "add_interval", "name": f"d{n}", "kind": kind, "tol": tol,
                            "items": draw(interval_items(scale))})
            extra = draw(st.integers(0, 9))
            if extra == 0:
                # "blind": nothing is read from the re-opened hole before the next log is added
                ops.append({"op": "reopen", "blind": draw(st.booleans())})
            elif extra == 1:
                ops.append({"op": "query"})
            elif extra in (2, 3) and n + 1 < n_adds:
                # this log and the next one are handed to ONE add_data call (a dictionary of several data sets)
                ops[-1]["batch_with_next"] = True
        if draw(st.integers(0, 2)) == 0:
            ops.append({"op": "reopen"})
        queries = draw(st.lists(st.floats(0.0, 400.0, allow_nan=False).map(lambda v: round(v, 4)), max_size=4))
        return {
            "collar": draw(st.lists(coord, min_size=3, max_size=3)),
            "surveys": table,
            "queries": queries,
            "ops": ops,
            "allow_known": draw(st.sampled_from(ALLOW_KNOWN)),
        }

    return program()


def standard_queries(path: RefPath, extra=()) -> list:
    """Deterministic query depths for a table: 0, stations, mid-points, beyond the end, dense pairs."""
    out = [0.0]
    stations = sorted(set(path.depth))
    for a, b in zip(stations[:-1], stations[1:]):
        out.extend([b, (a + b) / 2.0, a + (b - a) / 4.0])
    for d in stations:
        for eps in (1e-6, 1e-3):
            out.extend([max(0.0, d - eps), d + eps])
    end = path.end
    out.extend([end + 1e-6, end + 0.5, end + 10.0, end + 10.0 + 1e-6, end * 1.5 + 3.0])
    out.extend(float(v) for v in extra)
    return sorted(set(out))
