"""Engine `uijson`: ui.json dictionaries built from `geoh5py.ui_json.templates`, their values,
a small deterministic workspace they refer to, and the reference rules used by C14 / C15.

Everything here is driven by plain-data *programs*; nothing draws random numbers at execution time.
The reference side (value classes, expected data, the "is a value required" decision table, the
strict JSON reader) is written from the ui.json documentation (`docs/content/uijson_format`) and the
docstrings of `requires_value` / `BaseForm`, never by calling the functions under test.
"""
from __future__ import annotations

import json
import os
import traceback
import uuid as _uuid
from pathlib import Path

import numpy as np
from hypothesis import strategies as st

from .. import env

# =============================================================================== workspace fixture
PG_TYPES = ["Multi-element", "3D vector", "Dip direction & dip", "Strike & dip"]
PG_SIZE = {"Multi-element": 2, "3D vector": 3, "Dip direction & dip": 2, "Strike & dip": 2}
DATA_KINDS = ["float", "int", "text"]
DATA_TYPE_NAME = {"float": "Float", "int": "Integer", "text": "Text"}


def ws_spec_strategy():
    obj = st.fixed_dictionaries({
        "cls": st.sampled_from(["Points", "Curve"]),
        "n": st.integers(2, 5),
        "data": st.lists(st.sampled_from(DATA_KINDS), min_size=1, max_size=4),
        "pgs": st.lists(st.sampled_from(PG_TYPES), min_size=0, max_size=2, unique=True),
    })
    return st.fixed_dictionaries({
        "objs": st.lists(obj, min_size=1, max_size=3),
        "groups": st.integers(1, 2),
        "dh": st.booleans(),
    })


DEFAULT_WS = {"objs": [{"cls": "Points", "n": 3, "data": ["float", "float", "int"], "pgs": ["Multi-element"]},
                       {"cls": "Curve", "n": 2, "data": ["float"], "pgs": []}],
              "groups": 1, "dh": False}


def build_workspace(spec: dict, stem: str = "ws"):
    """Create the workspace described by `spec` on disk; return (open workspace, catalog).

    catalog = {"path", "objs": [{"uid","cls","data":[{"uid","kind","cls"}], "pgs":[{"uid","type"}]}],
               "groups": [{"uid","cls"}], "dhg": {"uid","cls","names"} | None}
    """
    from geoh5py.groups import ContainerGroup, DrillholeGroup
    from geoh5py.objects import Curve, Drillhole, Points
    from geoh5py.workspace import Workspace

    path = env.new_path(stem)
    ws = Workspace.create(path)
    cat = {"path": str(path), "objs": [], "groups": [], "dhg": None}
    parent = None
    for gi in range(max(1, int(spec.get("groups", 1)))):
        grp = ContainerGroup.create(ws, name=f"grp{gi}", **({"parent": parent} if parent is not None else {}))
        cat["groups"].append({"uid": grp.uid, "cls": type(grp).__name__})
        parent = grp
    if spec.get("dh"):
        dhg = DrillholeGroup.create(ws, name="dhg", parent=parent)
        hole = Drillhole.create(ws, parent=dhg, name="hole0", collar=[0.0, 0.0, 0.0],
                                surveys=np.array([[0.0, 0.0, -90.0], [10.0, 0.0, -90.0]]))
        hole.add_data({"au": {"values": np.array([1.0, 2.0]), "from-to": np.array([[0.0, 1.0], [1.0, 2.0]])},
                       "cu": {"values": np.array([3.0, 4.0]), "from-to": np.array([[0.0, 1.0], [1.0, 2.0]])}})
        cat["dhg"] = {"uid": dhg.uid, "cls": type(dhg).__name__, "names": ["au", "cu"]}
    for oi, ospec in enumerate(spec["objs"]):
        n = max(2, int(ospec.get("n", 3)))
        verts = np.array([[float(i), float(oi), 0.5 * i] for i in range(n)])
        cls = Curve if ospec.get("cls") == "Curve" else Points
        obj = cls.create(ws, vertices=verts, name=f"obj{oi}", parent=cat_parent(ws, cat, oi))
        entry = {"uid": obj.uid, "cls": type(obj).__name__, "data": [], "pgs": []}
        kinds = list(ospec.get("data") or ["float"])
        n_pg = sum(PG_SIZE[t] for t in ospec.get("pgs", []))
        while sum(1 for k in kinds if k == "float") < max(1, min(3, n_pg)):
            kinds.append("float")
        floats = []
        for di, kind in enumerate(kinds):
            if kind == "int":
                values = np.arange(n, dtype="int32") + di
            elif kind == "text":
                values = np.array([f"t{i}" for i in range(n)])
            else:
                values = np.arange(n, dtype=float) / 4.0 + di
            data = obj.add_data({f"d{oi}_{di}": {"values": values}})
            entry["data"].append({"uid": data.uid, "kind": kind, "cls": type(data).__name__})
            if kind == "float":
                floats.append(data)
        for pi, ptype in enumerate(ospec.get("pgs", [])):
            members = [floats[(pi + k) % len(floats)] for k in range(min(PG_SIZE[ptype], len(floats)))]
            members = list(dict.fromkeys(members))
            group = obj.create_property_group(name=f"pg{oi}_{pi}", property_group_type=ptype,
                                              properties=[m.uid for m in members])
            ws.add_or_update_property_group(group)
            entry["pgs"].append({"uid": group.uid, "type": ptype, "cls": type(group).__name__})
        cat["objs"].append(entry)
    return ws, cat


def cat_parent(ws, cat, oi):
    groups = cat["groups"]
    if oi % 2 == 0 or not groups:
        return ws.root
    return ws.get_entity(groups[oi % len(groups)]["uid"])[0]


# =============================================================================== value encoding
def enc_float(value: float) -> dict:
    return {"t": "float", "v": repr(float(value))}


def dec(value):
    """Decode a program value (tagged dicts for what JSON cannot carry exactly)."""
    if isinstance(value, dict) and "t" in value:
        if value["t"] == "float":
            return float(value["v"])
        if value["t"] == "int":
            return int(value["v"])
        raise ValueError(f"unknown tag {value}")
    if isinstance(value, list):
        return [dec(v) for v in value]
    return value


INT_SPECIALS = [0, 1, -1, 2 ** 31 - 1, 2 ** 31, -(2 ** 31) - 1, 2 ** 53 + 1, -(2 ** 53) - 1, 2 ** 63 - 1, 2 ** 63,
                -(2 ** 63), 10 ** 15]
FLOAT_SPECIALS = [0.0, -0.0, 0.1, 1.0 / 3.0, 1.0, -1.5, 1e16, 1e22, 1.7976931348623157e308, 5e-324,
                  2.2250738585072014e-308, 2.225073858507201e-308, float("inf"), float("-inf"), 1e-5,
                  123456789.12345679, 4.35, 0.30000000000000004]


def int_values():
    return st.one_of(st.integers(-1000, 1000), st.sampled_from(INT_SPECIALS),
                     st.integers(-(2 ** 63), 2 ** 63)).map(lambda v: {"t": "int", "v": str(v)})


def float_values(allow_inf=True):
    base = st.one_of(st.floats(allow_nan=False, allow_infinity=allow_inf),
                     st.sampled_from([f for f in FLOAT_SPECIALS if allow_inf or np.isfinite(f)]),
                     st.floats(allow_nan=False, allow_infinity=False, allow_subnormal=True, min_value=-1e-300,
                               max_value=1e-300),
                     *([st.sampled_from([float("inf"), float("-inf")])] if allow_inf else []))
    return base.map(enc_float)


# strings that look like another value kind.  The first group has a *documented* conversion
# ("" is None, "inf"/"-inf" are floats, uuid text is an identifier, *.geoh5 is a workspace path);
# the second group must survive unchanged.
NUMLIKE = ["1", "1.0", "-0", "1e5", "true", "false", "null", "None", "NaN", "nan", "Infinity", "-Infinity",
           "infinity", "Inf", "INF", " inf", "inf ", "+inf", "[1, 2]", "{}", "1,2,3", "a;b", " ", "\t", "\\", "\"",
           "∞", "geoh5", ".geoh5x", "x.geoh5.bak", "{", "{not-a-uuid}", "0" * 31]


def plain_text():
    return st.text(alphabet=st.characters(blacklist_categories=("Cs",)), min_size=1, max_size=12)


def string_values():
    """-> {"s": kind, ...} resolved at execution (some need the workspace catalog)."""
    return st.one_of(
        st.builds(lambda s: {"s": "text", "v": s}, plain_text()),
        st.builds(lambda s: {"s": "text", "v": s}, plain_text()),
        st.builds(lambda s: {"s": "text", "v": s}, st.sampled_from(["abc", "Option A", "data", "x y z", " ", "\t", "  ",
                                                                   " padded "])),
        st.builds(lambda s: {"s": "numlike", "v": s}, st.sampled_from(NUMLIKE)),
        st.builds(lambda s: {"s": "numlike", "v": s}, st.sampled_from(NUMLIKE)),
        st.builds(lambda s: {"s": "inf", "v": s}, st.sampled_from(["inf", "-inf"])),
        st.builds(lambda r, form: {"s": "uuid-known", "ref": r, "form": form}, st.integers(0, 50),
                  st.sampled_from(["plain", "brace", "upper", "hex", "urn"])),
        st.builds(lambda: {"s": "geoh5-real"}),
        st.builds(lambda: {"s": "geoh5-missing"}),
    )


def classify_string(text: str) -> str:
    """Reference classification of a string by the documented conversions (no library call)."""
    if text == "":
        return "empty"
    if text in ("inf", "-inf"):
        return "inf"
    try:
        _uuid.UUID(text)
        return "uuid"
    except (ValueError, AttributeError, TypeError):
        pass
    if Path(text).suffix == ".geoh5":
        return "geoh5"
    return "str"


def safe_text(text: str) -> str:
    """Keep generated free text out of the converted classes (those are generated on purpose)."""
    if classify_string(text) != "str":
        return text + "_"
    return text


def uid_text(uid, form: str) -> str:
    text = str(uid)
    if form == "brace":
        return "{" + text + "}"
    if form == "upper":
        return text.upper()
    if form == "hex":
        return uid.hex
    if form == "urn":
        return "urn:uuid:" + text
    return text


# =============================================================================== canonical views
def snap(value):
    """Comparable, JSON-able view of a data value: entities by uid + class, workspaces by resolved
    path, floats exactly (hex), no coercion between kinds."""
    from geoh5py.groups import PropertyGroup
    from geoh5py.shared import Entity
    from geoh5py.workspace import Workspace

    if value is None:
        return ["none"]
    if isinstance(value, bool):
        return ["bool", value]
    if isinstance(value, int):
        return ["int", str(value)]
    if isinstance(value, float):
        return ["float", float(value).hex()]
    if isinstance(value, str):
        return ["str", value]
    if isinstance(value, _uuid.UUID):
        return ["uuid", str(value)]
    if isinstance(value, (Entity, PropertyGroup)):
        return ["entity", str(value.uid), type(value).__name__]
    if isinstance(value, Workspace):
        h5file = value.h5file
        return ["workspace", os.path.realpath(str(h5file)) if isinstance(h5file, (str, Path)) else "<memory>"]
    if isinstance(value, Path):
        return ["path", str(value)]
    if isinstance(value, (list, tuple)):
        return ["list", [snap(v) for v in value]]
    if isinstance(value, dict):
        return ["dict", {str(k): snap(v) for k, v in value.items()}]
    return ["other", type(value).__name__, repr(value)[:80]]


def snap_kind(snapped) -> str:
    if snapped[0] == "list":
        inner = sorted({snap_kind(v) for v in snapped[1]})
        return "list[" + ",".join(inner) + "]"
    if snapped[0] == "entity":
        return "entity"
    return snapped[0]


def where_raised(exc: BaseException) -> str:
    """`ExcClass@function` of the deepest geoh5py frame: stable signature component."""
    frames = traceback.extract_tb(exc.__traceback__)
    fn = "?"
    for frame in frames:
        if "geoh5py" in frame.filename:
            fn = frame.name
    return f"{type(exc).__name__}@{fn}"


def strict_json_loads(text: str):
    """RFC 8259 reader: the stdlib parser with the NaN / Infinity extension turned into an error."""

    def refuse(token):
        raise ValueError(f"non-standard JSON token {token}")

    return json.loads(text, parse_constant=refuse)


# =============================================================================== reference rules
def docs_requires_value(form: dict, forms: dict) -> bool | None:
    """Is a value required (None NOT allowed) for `form` inside the ui.json `forms`?

    Written from docs/content/uijson_format/params.rst and the docstrings of `requires_value` /
    `dependency_requires_value`:
      * top: a group whose groupOptional checkbox is unchecked disables all its parameters -> not required;
      * then the dependency: if the driving parameter (its `enabled` when it is optional, else its bool
        `value`) does not activate this parameter (dependencyType enabled/disabled) -> not required;
        if it does, an optional parameter is required iff it is enabled, any other parameter is required;
      * bottom: an optional parameter is required iff it is enabled (default true); a plain one is required.
    Returns None where the documentation leaves the combination open (see `unspecified_reason`).
    """
    if unspecified_reason(form, forms):
        return None
    group = form.get("group")
    if group:
        owners = [f for f in forms.values() if isinstance(f, dict) and f.get("group") == group
                  and "groupOptional" in f]
        if owners and owners[0].get("groupOptional") is True and owners[0].get("enabled", True) is False:
            return False
    if "dependency" in form:
        driver = forms[form["dependency"]]
        state = driver.get("enabled", True) if driver.get("optional", False) else driver.get("value")
        active = bool(state) if form.get("dependencyType", "enabled") == "enabled" else not bool(state)
        if not active:
            return False
        if form.get("optional", False):
            return bool(form.get("enabled", True))
        return True
    if form.get("optional", False):
        return bool(form.get("enabled", True))
    return True


def unspecified_reason(form: dict, forms: dict) -> str | None:
    """Combinations of switches whose meaning the documentation does not fix."""
    optional = form.get("optional", False)
    enabled = form.get("enabled", True)
    group = form.get("group")
    group_off = False
    if group:
        owners = [f for f in forms.values() if isinstance(f, dict) and f.get("group") == group
                  and "groupOptional" in f]
        if len(owners) > 1:
            return "two-group-owners"
        if owners and owners[0].get("groupOptional") is True and owners[0].get("enabled", True) is False:
            group_off = True
    dep_off = False
    if "dependency" in form:
        driver = forms.get(form["dependency"])
        if not isinstance(driver, dict):
            return "dependency-on-non-form"
        if driver.get("optional", False):
            state = driver.get("enabled", True)
        else:
            state = driver.get("value")
            if not isinstance(state, bool):
                return "dependency-on-non-bool-non-optional"
        active = bool(state) if form.get("dependencyType", "enabled") == "enabled" else not bool(state)
        dep_off = not active
    if group_off or dep_off:
        return None  # disabled from above: not required, whatever the lower switches say
    if enabled is False and optional is not True:
        # "enabled: false" on a parameter that has no checkbox of its own and whose group /
        # dependency (if any) leaves it active: params.rst only defines `enabled` for optional parameters
        return "disabled-without-a-switch"
    return None


# =============================================================================== form generation (C14)
FORM_KINDS = ["bool", "integer", "float", "string", "choice", "multichoice", "file", "group", "object",
              "multiobject", "data", "datagroup", "datavalue", "dhdata", "range"]
ENTITY_KINDS = {"group", "object", "multiobject", "data", "datagroup", "datavalue", "range"}
NEED_PARENT = {"data", "datagroup", "datavalue", "range"}
UID_FORMS = ["str", "uuid", "brace", "upper", "entity"]
# kinds whose stored value is naturally empty ("" / null) while the parameter is disabled
EMPTIABLE = {"string", "choice", "file", "group", "object", "multiobject", "data", "datagroup"}


def switch_strategy():
    return st.fixed_dictionaries({
        "opt": st.sampled_from([None, None, "enabled", "enabled", "disabled", "disabled"]),
        "grp": st.sampled_from([None, None, None, 0, 0, 1]),
        "gopt": st.sampled_from([None, None, True, True, False]),
        "dep": st.one_of(st.none(), st.none(), st.integers(0, 20)),
        "dtype": st.sampled_from([None, "enabled", "disabled"]),
        "raw": st.one_of(st.none(), st.none(), st.none(), st.none(), st.none(), st.none(),
                         st.fixed_dictionaries({"optional": st.sampled_from(["absent", True, False]),
                                                "enabled": st.sampled_from(["absent", True, False])})),
        "consistent": st.sampled_from([True] * 5 + [False]),
        "keep": st.booleans(),  # a disabled parameter keeps a real stored value (True) or an empty one
        "en_explicit": st.sampled_from([False, False, True]),
    })


def form_strategy(kinds=None):
    kinds = kinds or FORM_KINDS
    # few draws per form: large programs must fit Hypothesis' per-example entropy budget
    common = {
        "sw": switch_strategy(),
        "label": st.sampled_from(["L", "Läbel ✓", "a b", "1", "inf", "значение", "label:"]),
        "main": st.sampled_from([True, True, False, None]),
        "tooltip": st.sampled_from([None, None, "tip", "подсказка \u2603"]),
        "ref": st.integers(0, 11),
        "parent": st.integers(0, 3),
        "uidform": st.sampled_from(UID_FORMS),
    }
    words = ["Option A", "Option B", "α", "x y", "1", "true", "None", "日本", "a;b", "NaN"]

    def of(kind, **extra):
        return st.fixed_dictionaries({"kind": st.just(kind), **common, **extra})

    table = {
        "bool": of("bool", v=st.booleans()),
        "integer": of("integer", v=int_values(), vmin=st.one_of(st.none(), int_values()),
                      vmax=st.one_of(st.none(), int_values())),
        "float": of("float", v=float_values(), vmin=st.one_of(st.none(), float_values()),
                    vmax=st.one_of(st.none(), float_values()), precision=st.integers(0, 12),
                    line_edit=st.booleans()),
        "string": of("string", v=string_values()),
        "choice": of("choice", choices=st.lists(st.sampled_from(words), min_size=1, max_size=4, unique=True),
                     pick=st.integers(0, 3)),
        "multichoice": of("multichoice", choices=st.lists(st.sampled_from(words), min_size=1, max_size=4,
                                                          unique=True),
                          picks=st.lists(st.integers(0, 3), min_size=0, max_size=3)),
        "file": of("file", paths=st.lists(st.sampled_from(["a.txt", "/tmp/b c.dat", "dir/ü.csv", "model.con",
                                                           "x.GEOH5", "real.geoh5"]),
                                          min_size=1, max_size=3)),
        "group": of("group", dh=st.booleans()),
        "object": of("object"),
        "multiobject": of("multiobject", refs=st.lists(st.integers(0, 5), min_size=0, max_size=3)),
        "data": of("data", assoc=st.sampled_from(["Vertex", "Cell"])),
        "datagroup": of("datagroup"),
        "datavalue": of("datavalue", is_value=st.booleans(), v=st.one_of(float_values(), int_values()),
                        prop_none=st.booleans()),
        "dhdata": of("dhdata", names=st.lists(st.sampled_from(["au", "cu", "zn"]), min_size=1, max_size=3),
                     multiselect=st.booleans()),
        "range": of("range", lo=st.one_of(float_values(), int_values()), hi=st.one_of(float_values(), int_values()),
                    complement=st.booleans()),
    }
    weighted = list(kinds) + [k for k in ("object", "data", "group", "datavalue", "multiobject") if k in kinds]
    return st.one_of(*[table[k] for k in weighted])


def toplevel_strategy():
    """Plain (non-form) ui.json entries: the standard header members and free extras."""
    value = st.one_of(st.none(), st.booleans(), int_values(), float_values(),
                      plain_text().map(lambda s: {"s": "text", "v": s}),
                      st.sampled_from(NUMLIKE).map(lambda s: {"s": "numlike", "v": s}),
                      st.lists(st.one_of(int_values(), float_values()), max_size=3).map(lambda v: {"l": v}))
    return st.fixed_dictionaries({
        "title": st.one_of(st.sampled_from(["Custom UI", "Título ✓"]), plain_text()),
        "run_command": st.sampled_from([None, "run_me", "pkg.módulo"]),
        "conda_environment": st.sampled_from([None, "env"]),
        "conda_environment_boolean": st.booleans(),
        "monitoring_directory": st.sampled_from([None, "scratch", "text"]),
        "workspace": st.sampled_from([None, None, "path"]),
        "run_bool": st.booleans(),
        "extras": st.lists(value, max_size=2),
    })


def deepcopy_plain(tree):
    from copy import deepcopy

    return deepcopy(tree)


def _dependency_session(program):
    """Constructive shape: form 0 is a disabled optional parameter (or, for a boolean, a driver that holds False),
    form 1 depends on it and spells out its own `enabled` member; the session assigns None to the dependent."""
    if not program.pop("dep_session", False) or len(program["forms"]) < 2:
        return program
    forms = list(program["forms"])
    base = {"grp": None, "gopt": None, "dep": None, "dtype": None, "raw": None, "keep": True}
    forms[0] = {**forms[0], "sw": {**forms[0]["sw"], **base, "opt": "disabled", "en_explicit": False}}
    if forms[1]["kind"] not in ("integer", "float", "string"):
        forms[1] = {**forms[1], "kind": "float", "v": enc_float(2.5), "vmin": None, "vmax": None, "precision": 2,
                    "line_edit": False}
    forms[1] = {**forms[1], "sw": {**forms[1]["sw"], **base, "opt": None, "dep": 0, "en_explicit": True,
                                   "dtype": forms[1]["sw"].get("dtype") if forms[1]["sw"].get("dtype") != "disabled" else None}}
    edits = [{"form": 0, "how": "none"}] + list(program["edits"])[:2]
    return {**program, "forms": forms, "edits": edits}


def roundtrip_program_strategy(tier: str):
    return _roundtrip_programs().map(_dependency_session)


def _roundtrip_programs():
    return st.fixed_dictionaries({
        "dep_session": st.sampled_from([False] * 7 + [True]),
        "bystander": st.sampled_from([False, False, True]),
        "ws": ws_spec_strategy(),
        "geoh5": st.sampled_from(["path", "path", "pathobj", "open_rw", "open_rw", "open_r"]),
        "top": toplevel_strategy(),
        "forms": st.sampled_from([1, 2, 3, 3, 4, 4, 5, 5, 6, 7, 8, 9, 10]).flatmap(
            lambda n: st.lists(form_strategy(), min_size=n, max_size=n)),
        "ident": st.lists(st.fixed_dictionaries({"ref": st.integers(0, 11), "shape": st.sampled_from(
            ["one", "one", "list", "nested", "plain"]), "kind": st.sampled_from(["obj", "data", "pg", "group", "dhg"])}),
            min_size=1, max_size=3),
        "allow_known": st.sampled_from([False] * 9 + [True]),
        # a user session on the file that was read back: values assigned through set_data_value, then written again
        "edits": st.lists(st.fixed_dictionaries({"form": st.integers(0, 9),
                                                 "how": st.sampled_from(["stored", "stored", "fresh", "invalid", "none"])}), max_size=3),
    })


# ------------------------------------------------------------------------------- materialisation
class Built:
    """A ui.json dictionary plus what the reference expects of every parameter."""

    def __init__(self):
        self.ui_json: dict = {}
        self.meta: dict = {}   # name -> {kind, expected (snap|None), lookalike, unspecified, vclass, entity}
        self.excluded = 0      # triggers of known findings neutralised
        self.known: dict = {}  # name -> tags of the known findings whose trigger is present (allow_known)


def pick_entity(cat, kind, ref, obj_index=None):
    """-> (uid, class name) of an entity of the catalog, by index modulo."""
    if kind == "obj":
        entry = cat["objs"][ref % len(cat["objs"])]
        return entry["uid"], entry["cls"]
    if kind == "group":
        entry = cat["groups"][ref % len(cat["groups"])]
        return entry["uid"], entry["cls"]
    if kind == "dhg":
        entry = cat["dhg"] or cat["groups"][ref % len(cat["groups"])]
        return entry["uid"], entry["cls"]
    obj = cat["objs"][(obj_index if obj_index is not None else ref) % len(cat["objs"])]
    if kind == "pg":
        if obj["pgs"]:
            entry = obj["pgs"][ref % len(obj["pgs"])]
            return entry["uid"], entry["cls"]
        kind = "data"
    entry = obj["data"][ref % len(obj["data"])]
    return entry["uid"], entry["cls"]


def present_uid(uid, how: str, ws):
    """The same identifier in one of the accepted spellings."""
    if how == "uuid":
        return uid
    if how == "brace":
        return "{" + str(uid) + "}"
    if how == "upper":
        return str(uid).upper()
    if how == "entity" and ws is not None and getattr(ws, "_geoh5", None):
        found = ws.get_entity(uid)[0]
        if found is None:
            for obj in ws.objects:
                for group in obj.property_groups or []:
                    if group.uid == uid:
                        return group
        if found is not None:
            return found
    return str(uid)


def materialize(program: dict, cat: dict, ws, geoh5_value) -> Built:
    """Program -> ui.json dictionary (built through `templates.*`) + reference expectations."""
    from geoh5py.ui_json import templates
    from geoh5py.ui_json.constants import default_ui_json
    from copy import deepcopy

    allow_known = bool(program.get("allow_known"))
    built = Built()
    uj = deepcopy(default_ui_json)
    uj["geoh5"] = geoh5_value
    top = program.get("top") or {}
    scratch = str(env.scratch_dir())

    # ---- header / plain entries
    uj["title"] = safe_text(top.get("title") or "Custom UI")
    for key in ("run_command", "conda_environment"):
        if top.get(key) is not None:
            uj[key] = safe_text(top[key])
    uj["conda_environment_boolean"] = bool(top.get("conda_environment_boolean", False))
    uj["run_command_boolean"]["value"] = bool(top.get("run_bool", False))
    if top.get("monitoring_directory") == "scratch":
        uj["monitoring_directory"] = scratch
    elif top.get("monitoring_directory") == "text":
        uj["monitoring_directory"] = "some/dir"
    if top.get("workspace") == "path":
        uj["workspace"] = cat["path"]
    for key in ("title", "run_command", "conda_environment", "conda_environment_boolean",
                "monitoring_directory"):
        built.meta[key] = {"kind": "plain", "expected": snap(uj[key]), "lookalike": False, "unspecified": False,
                           "vclass": "header", "entity": False}
    built.meta["run_command_boolean"] = {"kind": "bool", "expected": snap(uj["run_command_boolean"]["value"]),
                                         "lookalike": False, "unspecified": False, "vclass": "header",
                                         "entity": False}
    # "workspace paths re-opened as workspaces": expected by resolved path (statement, not a look-alike)
    built.meta["workspace"] = {"kind": "plain", "lookalike": False, "unspecified": False,
                               "vclass": "workspace-path" if uj["workspace"] else "header", "entity": False,
                               "expected": ["workspace", os.path.realpath(cat["path"])] if uj["workspace"]
                               else ["none"]}
    built.meta["geoh5"] = {"kind": "plain", "lookalike": False, "unspecified": False, "vclass": "workspace-path",
                           "entity": False, "expected": ["workspace", os.path.realpath(cat["path"])]}
    for i, extra in enumerate(top.get("extras") or []):
        name = f"extra{i}"
        if isinstance(extra, dict) and "s" in extra:
            value = safe_text(extra["v"]) if extra["s"] == "text" else extra["v"]
            vclass = "plain-" + extra["s"]
        elif isinstance(extra, dict) and "l" in extra:
            value = dec(extra["l"])
            vclass = "plain-list"
        else:
            value = dec(extra)
            vclass = "plain-" + type(value).__name__
        uj[name] = value
        built.meta[name] = {"kind": "plain", "expected": snap(value), "lookalike": False, "unspecified": False,
                            "vclass": vclass, "entity": False}

    # ---- forms
    specs = list(program.get("forms") or [])
    names = [f"p{i}" for i in range(len(specs))]
    object_forms = [i for i, s in enumerate(specs) if s["kind"] == "object"]
    need_parent = any(s["kind"] in NEED_PARENT for s in specs)
    implicit_parent = None
    if need_parent and not object_forms:
        implicit_parent = "pobj"
        uid, cls = pick_entity(cat, "obj", specs[0].get("ref", 0))
        uj[implicit_parent] = templates.object_parameter(value=str(uid), label="parent object")
        built.meta[implicit_parent] = {"kind": "object", "expected": ["entity", str(uid), cls], "lookalike": False,
                                       "unspecified": False, "vclass": "entity", "entity": True}
    obj_index_of = {}
    for i in object_forms:
        obj_index_of[i] = specs[i].get("ref", 0) % len(cat["objs"])

    forms: dict = {}
    for i, spec in enumerate(specs):
        name = names[i]
        kind = spec["kind"]
        label = safe_text(spec.get("label") or kind)
        main = spec.get("main")
        how = spec.get("uidform", "str")
        lookalike = False
        vclass = kind
        expected = None
        entity = False
        parent_name = ""
        parent_obj = None
        if kind in NEED_PARENT:
            if object_forms:
                parent_i = object_forms[spec.get("parent", 0) % len(object_forms)]
                parent_name = names[parent_i]
                parent_obj = obj_index_of[parent_i]
            else:
                parent_name = implicit_parent
                parent_obj = specs[0].get("ref", 0) % len(cat["objs"])
        ref = spec.get("ref", 0)

        if kind == "bool":
            form = templates.bool_parameter(label=label, value=bool(spec["v"]))
            expected = snap(bool(spec["v"]))
        elif kind == "integer":
            value = dec(spec["v"])
            form = templates.integer_parameter(label=label, value=value, vmin=dec(spec.get("vmin")),
                                               vmax=dec(spec.get("vmax")))
            expected = snap(value)
            vclass = "integer:" + ("big" if abs(value) >= 2 ** 53 else "small")
        elif kind == "float":
            value = dec(spec["v"])
            form = templates.float_parameter(label=label, value=value, vmin=dec(spec.get("vmin")),
                                             vmax=dec(spec.get("vmax")), precision=spec.get("precision", 2),
                                             line_edit=spec.get("line_edit", True))
            expected = snap(value)
            vclass = "float:" + ("inf" if np.isinf(value) else "subnormal" if value != 0 and abs(value) < 2.3e-308
                                 else "finite")
        elif kind == "string":
            sval = spec["v"]
            skind = sval["s"]
            if skind == "text":
                value = safe_text(sval["v"])
                expected = snap(value)
                vclass = "string:blank" if not value.strip() else "string:text" if value.isascii() else "string:unicode"
            elif skind == "numlike":
                value = sval["v"]
                if classify_string(value) != "str":
                    value = value + "_"
                expected = snap(value)
                vclass = "string:numlike"
            elif skind == "inf":
                value = sval["v"]
                lookalike, vclass = True, "string:inf"
            elif skind == "uuid-known":
                kinds = ["obj", "data", "group"]
                uid, _cls = pick_entity(cat, kinds[sval["ref"] % 3], sval["ref"])
                value = uid_text(uid, sval.get("form", "plain"))
                lookalike, vclass = True, "string:uuid-text"
                entity = True
            elif skind == "geoh5-real":
                value = cat["path"]
                lookalike, vclass = True, "string:geoh5-path"
            else:
                value = os.path.join(scratch, "missing.geoh5")
                lookalike, vclass = True, "string:geoh5-missing"
            form = templates.string_parameter(label=label, value=value)
        elif kind == "choice":
            choices = [safe_text(c) for c in spec["choices"]]
            choices = list(dict.fromkeys(choices))
            value = choices[spec.get("pick", 0) % len(choices)]
            form = templates.choice_string_parameter(choice_list=choices, label=label, value=value)
            expected = snap(value)
        elif kind == "multichoice":
            choices = [safe_text(c) for c in spec["choices"]]
            choices = list(dict.fromkeys(choices))
            value = [choices[p % len(choices)] for p in spec.get("picks", [])]
            form = templates.choice_string_parameter(choice_list=choices, label=label, value=value,
                                                     multi_select=True)
            expected = snap(value)
            vclass = f"multichoice:{min(len(value), 2)}"
        elif kind == "file":
            paths = [cat["path"] if p == "real.geoh5" else p for p in spec["paths"]]
            value = ";".join(paths)
            if classify_string(value) == "geoh5":
                lookalike, vclass = True, "file:geoh5-path"
            else:
                expected = snap(value)
            exts = tuple(dict.fromkeys(Path(p).suffix[1:] or "txt" for p in paths))
            form = templates.file_parameter(label=label, value=value, file_type=exts,
                                            file_description=tuple(f"{e} file" for e in exts))
        elif kind == "group":
            uid, cls = pick_entity(cat, "dhg" if spec.get("dh") else "group", ref)
            form = templates.group_parameter(label=label, value=present_uid(uid, how, ws))
            expected = ["entity", str(uid), cls]
            entity = True
            vclass = "group:" + cls
        elif kind == "object":
            uid, cls = pick_entity(cat, "obj", ref)
            form = templates.object_parameter(label=label, value=present_uid(uid, how, ws))
            expected = ["entity", str(uid), cls]
            entity = True
        elif kind == "multiobject":
            picked = [pick_entity(cat, "obj", r) for r in spec.get("refs", [])]
            form = templates.object_parameter(label=label, multi_select=True,
                                              value=[present_uid(u, how, ws) for u, _ in picked])
            expected = ["list", [["entity", str(u), c] for u, c in picked]]
            entity = bool(picked)
            vclass = f"multiobject:{min(len(picked), 2)}"
        elif kind == "data":
            uid, cls = pick_entity(cat, "data", ref, parent_obj)
            dkind = next(d["kind"] for d in cat["objs"][parent_obj]["data"] if d["uid"] == uid)
            form = templates.data_parameter(label=label, parent=parent_name, value=present_uid(uid, how, ws),
                                            association=spec.get("assoc", "Vertex"),
                                            data_type=DATA_TYPE_NAME[dkind])
            expected = ["entity", str(uid), cls]
            entity = True
        elif kind == "datagroup":
            obj = cat["objs"][parent_obj]
            if obj["pgs"]:
                entry = obj["pgs"][ref % len(obj["pgs"])]
                form = templates.data_parameter(label=label, parent=parent_name,
                                                value=present_uid(entry["uid"], how, ws),
                                                data_group_type=entry["type"])
                expected = ["entity", str(entry["uid"]), entry["cls"]]
                vclass = "datagroup:" + entry["type"]
            else:
                uid, cls = pick_entity(cat, "data", ref, parent_obj)
                form = templates.data_parameter(label=label, parent=parent_name, value=present_uid(uid, how, ws))
                expected = ["entity", str(uid), cls]
                vclass = "data"
            entity = True
        elif kind == "datavalue":
            uid, cls = pick_entity(cat, "data", ref, parent_obj)
            value = dec(spec["v"])
            is_value = bool(spec.get("is_value", True))
            prop = None if (is_value and spec.get("prop_none")) else uid
            if prop is not None and how in ("str", "brace", "upper"):
                prop = present_uid(uid, how, None)
            form = templates.data_value_parameter(label=label, parent=parent_name, value=value, is_value=is_value,
                                                  prop=prop)
            if is_value:
                expected = snap(value)
                vclass = "datavalue:value"
            else:
                expected = ["entity", str(uid), cls]
                entity = True
                vclass = "datavalue:property"
        elif kind == "dhdata":
            uid, _cls = pick_entity(cat, "dhg", ref)
            value = list(spec.get("names") or ["au"])
            form = templates.drillhole_group_data(value=value, label=label, group_value=uid,
                                                  multiselect=bool(spec.get("multiselect", True)))
            # KNOWN FINDING guard (C14/read-raises/.../dhdata-optional-none): the template stores
            # "optional": None, which is written as "" and refused by the reader.
            if form.get("optional", 0) is None:
                if allow_known:
                    built.known.setdefault(name, set()).add("dhdata-optional-none")
                else:
                    del form["optional"]
                    built.excluded += 1
            expected = snap(value)
        elif kind == "range":
            uid, _cls = pick_entity(cat, "data", ref, parent_obj)
            value = [dec(spec["lo"]), dec(spec["hi"])]
            form = templates.range_label_template(label=label, value=value, parent=parent_name, property_=uid,
                                                  is_complement=bool(spec.get("complement")))
            del form["enabled"]  # the switch block below decides about `enabled`
            expected = snap(value)
            vclass = "range:" + ("inf" if any(isinstance(v, float) and np.isinf(v) for v in value) else "finite")
        else:  # pragma: no cover
            raise ValueError(kind)

        if main is None:
            form.pop("main", None)
        else:
            form["main"] = bool(main)
        if spec.get("tooltip") is not None:
            form["tooltip"] = safe_text(spec["tooltip"])
        forms[name] = form
        built.meta[name] = {"kind": kind, "expected": expected, "lookalike": lookalike, "unspecified": False,
                            "vclass": vclass, "entity": entity}

    apply_switches(specs, names, forms, built, allow_known)
    for name in names:
        uj[name] = forms[name]
    built.ui_json = uj
    return built


def apply_switches(specs, names, forms, built, allow_known):
    """optional / enabled / group / groupOptional / dependency / dependencyType members."""
    from geoh5py.ui_json import templates

    n = len(specs)
    # own switch
    for i, spec in enumerate(specs):
        sw = spec.get("sw") or {}
        form = forms[names[i]]
        raw = sw.get("raw")
        if raw:
            for key in ("optional", "enabled"):
                if raw[key] != "absent":
                    form[key] = raw[key]
                else:
                    form.pop(key, None)
        elif sw.get("opt"):
            form.update(templates.optional_parameter(sw["opt"]))
        if sw.get("grp") is not None:
            form["group"] = f"Group {sw['grp']}"
    # one owner per group
    owners = {}
    for i, spec in enumerate(specs):
        sw = spec.get("sw") or {}
        form = forms[names[i]]
        if "group" in form and sw.get("gopt") is not None and form["group"] not in owners:
            owners[form["group"]] = names[i]
            form["groupOptional"] = bool(sw["gopt"])
    # dependencies on boolean or optional parameters (the documented drivers)
    for i, spec in enumerate(specs):
        sw = spec.get("sw") or {}
        if sw.get("dep") is None:
            continue
        drivers = [j for j in range(n) if j != i and (specs[j]["kind"] == "bool" or forms[names[j]].get("optional"))]
        if not drivers:
            continue
        driver = drivers[sw["dep"] % len(drivers)]
        forms[names[i]]["dependency"] = names[driver]
        if sw.get("dtype") is not None:
            forms[names[i]]["dependencyType"] = sw["dtype"]
    # `enabled` spelled out on forms without a checkbox of their own (Geoscience ANALYST exports it for every form)
    for i, spec in enumerate(specs):
        sw = spec.get("sw") or {}
        if sw.get("en_explicit") and "enabled" not in forms[names[i]] and "groupOptional" not in forms[names[i]]:
            forms[names[i]]["enabled"] = True

    # `enabled` as Geoscience ANALYST exports it: false for everything greyed out from above
    def greyed_by(form):
        group_off = False
        if "group" in form and form["group"] in owners:
            owner = forms[owners[form["group"]]]
            group_off = owner.get("groupOptional") is True and owner.get("enabled", True) is False \
                and owner is not form
        dep_off = False
        if "dependency" in form:
            driver = forms[form["dependency"]]
            state = driver.get("enabled", True) if driver.get("optional", False) else driver.get("value")
            active = bool(state) if form.get("dependencyType", "enabled") == "enabled" else not bool(state)
            dep_off = not active
        return group_off or dep_off

    for _ in range(n + 2):  # fixpoint: greying propagates along dependencies and groups
        changed = False
        for i, spec in enumerate(specs):
            sw = spec.get("sw") or {}
            form = forms[names[i]]
            if greyed_by(form) and sw.get("consistent", True) and form.get("enabled", True) is not False:
                form["enabled"] = False
                changed = True
        if not changed:
            break

    # KNOWN FINDING guard (group-owner-propagation): `set_enabled` copies the `enabled` member of the form
    # that carries `groupOptional` (whatever its value) onto every member of the group.  It shows when the
    # owner has an `enabled` member that differs from a member's and the documentation does not ask for it
    # (owner enabled, or no group checkbox at all).  Neutralised by moving that member out of the group.
    for group, owner_name in owners.items():
        owner = forms[owner_name]
        if "enabled" not in owner or owner["enabled"] is None:
            continue
        for i, name in enumerate(names):
            form = forms[name]
            if form is owner or form.get("group") != group:
                continue
            if form.get("enabled", True) != owner["enabled"] and (
                    owner["enabled"] is True or owner.get("groupOptional") is not True):
                if allow_known:
                    for member in names:
                        if forms[member].get("group") == group:
                            built.known.setdefault(member, set()).add("group-owner-propagation")
                else:
                    del form["group"]
                    built.excluded += 1

    # a parameter driven (dependency) by a member of such a group inherits the trigger: its driver's
    # `enabled` is what the propagation overwrites
    for _ in range(n + 1):
        grew = False
        for name in names:
            driver = forms[name].get("dependency")
            if driver in built.known and not built.known[driver] <= built.known.get(name, set()):
                built.known.setdefault(name, set()).update(
                    t for t in built.known[driver] if t == "group-owner-propagation")
                grew = True
        if not grew:
            break

    for i, spec in enumerate(specs):
        form = forms[names[i]]
        meta = built.meta[names[i]]
        greyed = greyed_by(form)
        if greyed and form.get("enabled", True) is not False:
            meta["unspecified"] = True  # enabled although its group / dependency disables it
            if "group" not in form:
                meta["unspecified_why"] = "enabled-while-switched-off"
        own_checkbox = form.get("optional", False) is True or form.get("groupOptional") is True
        if form.get("enabled", True) is False and not own_checkbox and not greyed:
            meta["unspecified"] = True  # disabled without any switch that could disable it
    # a parameter driven by an unspecified one is unspecified too (its driver's state is what the round trip may settle
    # either way)
    for _ in range(n + 1):
        grew = False
        for name in names:
            driver = forms[name].get("dependency")
            if driver in built.meta and built.meta[driver]["unspecified"] and not built.meta[name]["unspecified"]:
                built.meta[name]["unspecified"] = True
                grew = True
        if not grew:
            break
    # stored value of a disabled parameter: either kept or emptied (both are what files contain)
    for i, spec in enumerate(specs):
        sw = spec.get("sw") or {}
        form = forms[names[i]]
        meta = built.meta[names[i]]
        if form.get("enabled", True) is False:
            if not sw.get("keep", True) and spec["kind"] in EMPTIABLE:
                form["value"] = None
            meta["expected_enabled"] = False
            meta["value_expected"] = meta["expected"]
            meta["expected"] = ["none"]
        else:
            meta["expected_enabled"] = True


# =============================================================================== C14 interpreter
def run_roundtrip(program: dict, res, pid: str = "C14"):
    """Build workspace + ui.json, InputFile -> write -> read, evaluate the five clauses."""
    from geoh5py.ui_json import InputFile
    from geoh5py.workspace import Workspace

    stats = {"constructed": False, "roundtrip": False, "forms": 0, "entity_forms": 0, "disabled_forms": 0,
             "kinds": set()}
    ws = None
    opened = None
    try:
        ws, cat = build_workspace(program.get("ws") or DEFAULT_WS)
        ws.close()
        mode = program.get("geoh5", "path")
        if mode == "open_rw":
            opened = Workspace(cat["path"], mode="r+")
            geoh5_value = opened
        elif mode == "open_r":
            opened = Workspace(cat["path"], mode="r")
            geoh5_value = opened
        elif mode == "pathobj":
            geoh5_value = Path(cat["path"])
        else:
            geoh5_value = cat["path"]
        built = materialize(program, cat, opened, geoh5_value)
        if built.excluded:
            res.count("excluded_by_finding", built.excluded)
        form_names = [k for k, m in built.meta.items() if k.startswith("p") and k[1:].isdigit()]
        stats["forms"] = len(form_names)
        for name in form_names:
            meta = built.meta[name]
            stats["kinds"].add(meta["kind"])
            res.label("form:" + meta["kind"])
            res.label("value:" + meta["vclass"])
            form = built.ui_json[name]
            for member in ("optional", "group", "groupOptional", "dependency", "dependencyType", "multiSelect",
                           "isValue"):
                if member in form:
                    res.label("member:" + member)
            if meta["expected_enabled"] is False:
                stats["disabled_forms"] += 1
            if meta["entity"] and meta["expected_enabled"]:
                stats["entity_forms"] += 1
            if meta["lookalike"]:
                res.count("lookalike_values")
            if meta["unspecified"]:
                res.count("unspecified_forms")
        res.label("geoh5:" + mode)

        # ---- another, unrelated InputFile of the process whose owner switched `update_enabled` off in its own
        # options: the file under test must behave as if it were alone
        if program.get("bystander"):
            try:
                from geoh5py.ui_json.constants import default_ui_json as _default

                other_file = InputFile(ui_json={**deepcopy_plain(_default), "geoh5": geoh5_value})
                other_file.validation_options["update_enabled"] = False
                res.label("bystander-with-own-options")
            except Exception as exc:
                res.label(f"bystander-refused:{type(exc).__name__}")
        # ---- construct
        try:
            ifile = InputFile(ui_json=built.ui_json)
            data0 = ifile.data
        except Exception as exc:  # rejected at construction: nothing to round-trip
            res.label("construct-rejected:" + type(exc).__name__)
            res.info["construct_error"] = f"{where_raised(exc)}: {str(exc)[:200]}"
            clean = not any(m["lookalike"] or m["unspecified"] for m in built.meta.values()
                            if m.get("kind") != "plain") and not any(
                (s.get("sw") or {}).get("raw") for s in program.get("forms") or [])
            if clean:
                # every form holds a value of its own domain and consistent switches: such a file must be accepted
                res.label("construct-rejected-clean:" + where_raised(exc))
                res.info["construct_error"] = f"{where_raised(exc)}: {str(exc)[:200]}"
                culprit, culprit_name = blame_form(exc, built)
                res.fail(tagged(built, culprit_name, f"{pid}/construct-raises-on-domain-values/{where_raised(exc)}/{culprit}"),
                         f"InputFile(ui_json) refused a file whose forms all hold values of their domain: "
                         f"{type(exc).__name__}: {str(exc)[:300]}")
            return stats
        stats["constructed"] = True
        snap0 = {k: snap(v) for k, v in data0.items()}

        # ---- clause 4: promote / demote on identifier-valued dictionaries
        check_promote_demote(program, cat, ifile, res, pid)

        # ---- write
        out_dir = env.new_dir("uj")
        try:
            out = ifile.write_ui_json(name="case.ui.json", path=str(out_dir))
        except Exception as exc:
            res.fail(tagged(built, None, f"{pid}/write-raises/{where_raised(exc)}"), f"write_ui_json raised {type(exc).__name__}: "
                                                                f"{str(exc)[:300]}")
            return stats
        snap_mem = {k: snap(v) for k, v in (ifile.data or {}).items()}
        enabled_mem = {k: f.get("enabled", True) for k, f in ifile.ui_json.items() if isinstance(f, dict)}
        if opened is not None:
            opened.close()
        text = Path(out).read_text(encoding="utf-8")

        # ---- clause 5: the text is standard JSON
        try:
            strict_json_loads(text)
        except ValueError as exc:
            res.fail(f"{pid}/json-not-standard/{'token' if 'token' in str(exc) else 'syntax'}",
                     f"written file is not standard JSON: {exc}")

        # ---- read
        try:
            back = InputFile.read_ui_json(out)
            data1 = back.data
        except Exception as exc:
            kinds = sorted({built.meta[n]["kind"] for n in form_names})
            culprit, culprit_name = blame_form(exc, built)
            if culprit_name in built.meta and built.meta[culprit_name]["unspecified"] and (
                    "Validation" in type(exc).__name__):
                # the refusal concerns a parameter whose switches the documentation does not settle
                res.label("read-refuses-unspecified-parameter")
                return stats
            res.fail(tagged(built, culprit_name, f"{pid}/read-raises/{where_raised(exc)}/{culprit}"),
                     f"read_ui_json of the file just written raised {type(exc).__name__}: {str(exc)[:300]} "
                     f"(forms: {kinds})")
            return stats
        stats["roundtrip"] = True
        snap1 = {k: snap(v) for k, v in data1.items()}
        enabled1 = {k: f.get("enabled", True) for k, f in back.ui_json.items() if isinstance(f, dict)}

        # ---- clauses 1-3
        if set(snap1) != set(snap0):
            res.fail(f"{pid}/parameters-differ/keys", f"parameters before {sorted(snap0)} after {sorted(snap1)}")
        if snap_mem != snap0:
            res.count("data_changed_by_write")
        for name, before in snap0.items():
            meta = built.meta.get(name, {"kind": "plain", "vclass": "?", "unspecified": False, "lookalike": False,
                                         "expected": None})
            if meta["unspecified"]:
                continue
            after = snap1.get(name)
            kind = meta["kind"]
            if after != before:
                res.fail(tagged(built, name, f"{pid}/data-differs/{kind}/{snap_kind(before)}->"
                                             f"{snap_kind(after) if after else 'missing'}"
                                             f"/{switch_class(built.ui_json.get(name))}"),
                         f"parameter {name!r} ({meta['vclass']}): data before write {before} != after read {after}")
            if isinstance(built.ui_json.get(name), dict):
                if enabled1.get(name) != enabled_mem.get(name):
                    res.fail(tagged(built, name, f"{pid}/enabled-differs/{enabled_mem.get(name)}->"
                                                 f"{enabled1.get(name)}/{switch_class(built.ui_json.get(name))}"),
                             f"parameter {name!r}: enabled in memory after write {enabled_mem.get(name)} != "
                             f"after read {enabled1.get(name)}")
                if enabled1.get(name) is False and after != ["none"]:
                    res.fail(tagged(built, name, f"{pid}/disabled-not-none/{kind}/read"), f"parameter {name!r} disabled after read but "
                                                                     f"data is {after}")
                if meta.get("expected_enabled") is False and before != ["none"]:
                    res.fail(tagged(built, name, f"{pid}/disabled-not-none/{kind}/constructed"),
                             f"parameter {name!r} generated disabled but data is {before}")
            if not meta["lookalike"] and meta.get("expected") is not None:
                if before != meta["expected"]:
                    res.fail(tagged(built, name, f"{pid}/data-vs-generated/{kind}/{snap_kind(meta['expected'])}->"
                                                 f"{snap_kind(before)}"),
                             f"parameter {name!r} ({meta['vclass']}): generated {meta['expected']} but data is "
                             f"{before}")
        if program.get("edits") and not res.fails:
            run_edit_session(program, built, back, form_names, res, pid)
        return stats
    finally:
        env.close_quietly(opened, ws)


EDITABLE_KINDS = ("bool", "integer", "float", "string", "datavalue")


def run_edit_session(program, built, ifile, form_names, res, pid):
    """The file that was read back is edited through set_data_value and written again: what the in-memory
    InputFile holds for the edited parameters before the second write is what a reader of the second file gets.

    Only forms whose enabled state is their own are edited (an `optional` form with an `enabled` member, or a
    data-or-value form; no group, no dependency, not referenced by another form's dependency), with the value the
    form already stores (re-enabling with the stored number, switching a data-or-value form back to its number box)
    or a neighbour of it."""
    import math

    from geoh5py.ui_json import InputFile

    depended = {f.get("dependency") for f in ifile.ui_json.values() if isinstance(f, dict)}
    cands = []
    for name in form_names:
        meta = built.meta[name]
        form = ifile.ui_json.get(name)
        if (not isinstance(form, dict) or meta["kind"] not in EDITABLE_KINDS or meta["unspecified"] or meta["lookalike"]
                or "group" in form or "dependency" in form or name in depended):
            continue
        if not ((form.get("optional") and "enabled" in form) or "isValue" in form):
            continue
        stored = form.get("value")
        if type(stored) not in (bool, int, float, str) or (isinstance(stored, float) and not math.isfinite(stored)):
            continue
        if isinstance(stored, str) and (stored == "" or classify_string(stored) != "str" or classify_string(stored + "x") != "str"):
            continue
        cands.append(name)
    # forms switched off from above (a dependency on a parameter that does not activate them; no group): the
    # documentation asks no value of them, so None is an in-domain edit whatever members the form itself carries -
    # also when the form spells out `enabled: true` although it is switched off from above (a combination the static
    # round trip does not judge; here only "what the session holds before the write is what the reader gets" is
    # asked). (None on an enabled optional parameter is refused by the library, as params.rst says.)
    def none_candidates():
        forms_now = {k: v for k, v in ifile.ui_json.items() if isinstance(v, dict)}
        found = []
        for name in form_names:
            meta = built.meta[name]
            form = ifile.ui_json.get(name)
            if (not isinstance(form, dict) or meta["kind"] not in EDITABLE_KINDS or meta["lookalike"]
                    or "group" in form or "isValue" in form):
                continue
            if meta["unspecified"] and meta.get("unspecified_why") != "enabled-while-switched-off":
                continue
            if "dependency" in form:
                driver = forms_now.get(form["dependency"])
                if name in depended or not isinstance(driver, dict) or "dependency" in driver or "group" in driver:
                    continue
                if built.meta.get(form["dependency"], {}).get("unspecified"):
                    continue
                if docs_requires_value(form, forms_now) is False:
                    found.append(name)
        return found

    none_cands = none_candidates()
    if not cands and not none_cands:
        return
    assigned = {}
    refused_any = False
    for edit in program["edits"]:
        if edit["how"] == "none":
            none_now = none_candidates()
            if not none_now:
                continue
            name = none_now[edit["form"] % len(none_now)]
            form = ifile.ui_json[name]
            state = ("dependency-off" if "dependency" in form else "own-checkbox") + (
                ":enabled" if form.get("enabled") is True else ":disabled" if form.get("enabled") is False else "") + (
                ":optional" if form.get("optional") else "") + (":driver" if name in depended else "")
            try:
                ifile.set_data_value(name, None)
            except Exception as exc:
                res.fail(tagged(built, name, f"{pid}/none-refused-where-no-value-is-required/{built.meta[name]['kind']}/{state}/{type(exc).__name__}"),
                         f"set_data_value({name!r}, None) on a parameter of which no value is required ({state}): "
                         f"{type(exc).__name__}: {str(exc)[:200]}")
                return
            assigned[name] = (None, "none", state)
            res.label(f"edit:none:{state}")
            continue
        if not cands:
            continue
        name = cands[edit["form"] % len(cands)]
        form = ifile.ui_json[name]
        stored = form["value"]
        value = stored
        if edit["how"] == "invalid":
            # a value of the wrong type: the assignment is refused (the user's code catches the error and carries on);
            # the parameter keeps what it had and the session must still write a file that reads back
            wrong = 5 if isinstance(stored, str) else "not a number" if not isinstance(stored, bool) else "maybe"
            kept = snap(ifile.data[name])
            try:
                ifile.set_data_value(name, wrong)
            except Exception as exc:
                res.label(f"edit:invalid-refused:{type(exc).__name__}")
                if snap(ifile.data[name]) != kept:
                    res.label("refused-edit-changed-data")  # C15's clause; here the second write / read decides
                refused_any = True
                continue
            res.label("edit:invalid-accepted")  # outside the form's domain and not refused: nothing to demand
            return
        if edit["how"] == "fresh":
            value = (not stored) if isinstance(stored, bool) else (stored + "x") if isinstance(stored, str) else stored + 1
        state = ("disabled" if form.get("enabled") is False else "property-mode" if form.get("isValue") is False
                 else "enabled")
        try:
            ifile.set_data_value(name, value)
        except Exception as exc:
            res.label(f"edit-rejected:{type(exc).__name__}")
            continue
        assigned[name] = (value, edit["how"], state)
        res.label(f"edit:{edit['how']}:{state}")
    if not assigned and not refused_any:
        return
    mem = {name: snap(ifile.data[name]) for name in assigned}
    for name, (value, how, state) in assigned.items():
        if mem[name] != snap(value):
            res.fail(tagged(built, name, f"{pid}/edit-not-in-data/{built.meta[name]['kind']}/{how}/{state}"),
                     f"set_data_value({name!r}, {value!r}) accepted but data holds {mem[name]}")
            return
    out_dir = env.new_dir("uj2")
    try:
        out = ifile.write_ui_json(name="edited.ui.json", path=str(out_dir))
    except Exception as exc:
        res.fail(tagged(built, None, f"{pid}/write-raises-after-edit/{where_raised(exc)}"), f"{type(exc).__name__}: {str(exc)[:300]}")
        return
    try:
        again = InputFile.read_ui_json(out)
        data2 = again.data
    except Exception as exc:
        res.fail(tagged(built, None, f"{pid}/read-raises-after-edit/{where_raised(exc)}"), f"{type(exc).__name__}: {str(exc)[:300]}")
        return
    res.count("edited_parameters_compared", len(assigned))
    for name, (value, how, state) in assigned.items():
        got = snap(data2.get(name))
        if got != mem[name]:
            res.fail(tagged(built, name, f"{pid}/edit-lost/{built.meta[name]['kind']}/{how}/{state}"),
                     f"parameter {name!r} was {state}; set_data_value({value!r}) then write: data before write "
                     f"{mem[name]} != after read {got}")
            return


def tagged(built, name, sig: str) -> str:
    """Signature of a failing clause on parameter `name`; marks cases that contain the (deliberately
    allowed) trigger of a known finding so that those signatures do not hide anything else."""
    tags = built.known.get(name)
    if name is None and built.known:
        # the exception names no parameter: the file as a whole contains the allowed triggers
        tags = set().union(*built.known.values())
    return f"{sig}/known:{'+'.join(sorted(tags))}" if tags else sig


def switch_class(form) -> str:
    if not isinstance(form, dict):
        return "plain"
    parts = []
    if "optional" in form:
        parts.append("opt")
    if "group" in form:
        parts.append("gowner" if "groupOptional" in form else "gmember")
    if "dependency" in form:
        parts.append("dep")
    return "+".join(parts) or "bare"


def blame_form(exc, built) -> str:
    import re

    for token in re.findall(r"\b(p\d+|pobj|extra\d+)\b", str(exc)):
        if token in built.meta:
            return built.meta[token]["kind"], token
    return "?", None


def check_promote_demote(program, cat, ifile, res, pid):
    """demote(promote(x)) == x on identifiers; promote(demote(y)) gives the same entities."""
    from copy import deepcopy

    from geoh5py.ui_json import InputFile

    ident = {}
    expect = {}
    for i, item in enumerate(program.get("ident") or []):
        kind = item["kind"]
        if kind == "dhg" and not cat["dhg"]:
            kind = "group"
        uid, cls = pick_entity(cat, kind, item["ref"])
        key = f"k{i}"
        if item["shape"] == "list":
            uid2, cls2 = pick_entity(cat, "obj", item["ref"] + 1)
            ident[key] = [uid, uid2]
            expect[key] = ["list", [["entity", str(uid), cls], ["entity", str(uid2), cls2]]]
        elif item["shape"] == "nested":
            ident[key] = {"label": "nested", "value": uid}
            expect[key] = ["dict", {"label": ["str", "nested"], "value": ["entity", str(uid), cls]}]
        elif item["shape"] == "plain":
            ident[key] = 5
            expect[key] = ["int", "5"]
        else:
            ident[key] = uid
            expect[key] = ["entity", str(uid), cls]
    if not ident:
        return
    workspace = ifile.geoh5
    was_open = bool(getattr(workspace, "_geoh5", None))
    try:
        if not was_open:
            workspace.open(mode="r")
        try:
            promoted = ifile.promote(deepcopy(ident))
            snap_p = {k: snap(v) for k, v in promoted.items()}
            demoted = InputFile.demote(promoted)
            again = ifile.promote(to_identifiers(deepcopy(demoted)))
            snap_again = {k: snap(v) for k, v in again.items()}
        except Exception as exc:
            res.fail(f"{pid}/promote-demote-raises/{where_raised(exc)}", f"{type(exc).__name__}: {str(exc)[:300]}")
            return
        res.count("promote_demote_dicts")
        for key, want in expect.items():
            shape = want[0]
            if snap_p.get(key) != want:
                res.fail(f"{pid}/promote-wrong/{shape}", f"promote({ident[key]!r}) gave {snap_p.get(key)}, "
                                                         f"expected {want}")
            back = snap(to_identifiers(deepcopy(demoted.get(key))))
            if back != snap(ident[key]):
                res.fail(f"{pid}/demote-promote-not-identity/{shape}",
                         f"demote(promote(x)) = {demoted.get(key)!r} for x = {ident[key]!r}")
            if snap_again.get(key) != snap_p.get(key):
                res.fail(f"{pid}/promote-demote-not-identity/{shape}",
                         f"promote(demote(y)) = {snap_again.get(key)} for y = {snap_p.get(key)}")
    finally:
        if not was_open:
            env.close_quietly(workspace)


def to_identifiers(value):
    """Reference reading of demoted identifiers: '{uuid}' text -> UUID (stdlib only)."""
    if isinstance(value, dict):
        return {k: to_identifiers(v) for k, v in value.items()}
    if isinstance(value, list):
        return [to_identifiers(v) for v in value]
    if isinstance(value, str):
        try:
            return _uuid.UUID(value)
        except ValueError:
            return value
    return value


# =============================================================================== C15: verdicts
def verdict_of(fn):
    """Run one library call -> (verdict, detail).

    verdict: "accept" | "reject" (a ui.json validation error) | "crash" (any other exception);
    detail: exception class name (reject) or ExcClass@function (crash)."""
    from geoh5py.shared.exceptions import BaseValidationError, JSONParameterValidationError

    try:
        fn()
    except (BaseValidationError, JSONParameterValidationError) as exc:
        return "reject", type(exc).__name__
    except Exception as exc:  # library fault other than a validation verdict
        return "crash", where_raised(exc)
    return "accept", ""


def rules_view(validations) -> str:
    """Canonical text of a rule table (types by name), to detect mutation."""

    def norm(value):
        if isinstance(value, type):
            return "<" + value.__name__ + ">"
        if isinstance(value, dict):
            return {str(k): norm(v) for k, v in sorted(value.items(), key=lambda kv: str(kv[0]))}
        if isinstance(value, (list, tuple)):
            return [norm(v) for v in value]
        if isinstance(value, (set, frozenset)):
            return sorted(str(norm(v)) for v in value)
        return snap(value)

    return json.dumps(norm(validations), sort_keys=True, default=str)


def uj_view(ui_json) -> str:
    return json.dumps(snap(ui_json), sort_keys=True)


# ------------------------------------------------------------------------------- (a) switch table
T_OPTIONAL = ["absent", True, False]
T_ENABLED = ["absent", True, False]
T_GROUP = ["none", "member/noowner", "ownerT", "ownerF"] + [f"member/owner{g}/{s}" for g in "TF"
                                                             for s in ("T", "F", "absent")]
# boolx = a boolean driver that spells out "optional": false (as Geoscience ANALYST writes it)
T_DEP = [("none", "absent")] + [(d, t) for d in ("bool/T", "bool/F", "boolx/T", "boolx/F", "opt/T", "opt/F", "opt/absent")
                                for t in ("absent", "enabled", "disabled")]
T_KINDS = ["float", "choice"]


def table_rows():
    rows = []
    for kind in T_KINDS:
        for optional in T_OPTIONAL:
            for enabled in T_ENABLED:
                for group in T_GROUP:
                    for dep, dtype in T_DEP:
                        row = {"layer": "table", "kind": kind, "optional": optional, "enabled": enabled,
                               "group": group, "dep": dep, "dtype": dtype}
                        if (optional, enabled, group, dep, dtype) == (True, "absent", "none", "bool/T", "absent"):
                            row["allow_known"] = True
                        rows.append(row)
    return rows


def build_table_forms(row):
    from geoh5py.ui_json import templates

    if row["kind"] == "float":
        form = templates.float_parameter(value=1.5)
        valid, invalid = 2.5, "text"
    else:
        form = templates.choice_string_parameter(choice_list=["A", "B"], value="A")
        valid, invalid = "B", "C"
    forms = {"F": form}
    if row["optional"] != "absent":
        form["optional"] = row["optional"]
    if row["enabled"] != "absent":
        form["enabled"] = row["enabled"]
    group = row["group"]
    if group != "none":
        form["group"] = "g"
        if group in ("ownerT", "ownerF"):
            form["groupOptional"] = group == "ownerT"
        elif group.startswith("member/owner"):
            _, owner, state = group.split("/")
            other = templates.string_parameter(value="o", label="owner")
            other["group"] = "g"
            other["groupOptional"] = owner == "ownerT"
            if state != "absent":
                other["enabled"] = state == "T"
            forms["O"] = other
        else:
            other = templates.string_parameter(value="m", label="other member")
            other["group"] = "g"
            forms["O"] = other
    dep = row["dep"]
    if dep != "none":
        dkind, state = dep.split("/")
        if dkind in ("bool", "boolx"):
            driver = templates.bool_parameter(value=state == "T", label="driver")
            if dkind == "boolx":
                driver["optional"] = False
        else:
            driver = templates.float_parameter(value=1.0, label="driver")
            driver["optional"] = True
            if state != "absent":
                driver["enabled"] = state == "T"
        forms["D"] = driver
        form["dependency"] = "D"
        if row["dtype"] != "absent":
            form["dependencyType"] = row["dtype"]
    return forms, valid, invalid


def deciding_level(form, forms) -> str:
    if "group" in form and any("groupOptional" in f for f in forms.values() if f.get("group") == form["group"]):
        return "group"
    if "dependency" in form:
        return "dependency"
    if "optional" in form or "enabled" in form:
        return "optional"
    return "plain"


def reference_flat(forms):
    """`data` of the other forms by the documented rule (value, or None when disabled)."""
    return {k: (None if f.get("enabled", True) is False else f.get("value")) for k, f in forms.items()}


def run_table_row(row, res, pid="C15"):
    from copy import deepcopy

    from geoh5py.ui_json import InputValidation

    forms, valid, invalid = build_table_forms(row)
    form = forms["F"]
    # KNOWN FINDING guard (dependency-enabled-keyerror): `optional` present, `enabled` absent and a
    # dependency -> dependency_requires_value indexes form["enabled"].  Two fixed rows keep it visible.
    trigger = "optional" in form and "enabled" not in form and "dependency" in form
    if trigger and not row.get("allow_known"):
        res.count("excluded_by_finding")
        form["enabled"] = True  # the documented default, written out
    required = docs_requires_value(form, forms)
    level = deciding_level(form, forms)
    switches = sum(1 for k in ("optional", "enabled", "group", "groupOptional", "dependency", "dependencyType")
                   if k in form)
    res.label("table:" + level)
    res.label(f"table-switches:{min(switches, 4)}")
    flags = f"opt={row['optional']},en={row['enabled']}"
    for vname, value, expect in (("none", None, None if required is None else ("reject" if required else "accept")),
                                 ("valid", valid, "accept"), ("invalid", invalid, "reject")):
        if expect is None:
            res.count("table_unspecified")
            res.label("table-unspecified:" + (unspecified_reason(form, forms) or "?"))
            continue
        outcomes = {}
        for surface in ("validate", "validate_data"):
            holder = {}

            def call(surface=surface, holder=holder):
                validator = InputValidation(ui_json=deepcopy(forms))
                holder["built"] = True
                if surface == "validate":
                    validator.validate("F", value)
                else:
                    # the auxiliary forms carry their (always acceptable) stored values
                    data = {k: f.get("value") for k, f in forms.items()}
                    data["F"] = value
                    validator.validate_data(data)

            outcomes[surface] = verdict_of(call)
        res.count("table_verdicts", len(outcomes))
        for surface, (got, detail) in outcomes.items():
            if got == expect:
                continue
            if got == "crash":
                if expect == "reject":
                    res.count("rejected_by_crash")
                    if vname == "invalid":
                        continue
                res.fail(f"{pid}/table/crash/{detail}/{level}" + ("/known:dependency-enabled-keyerror" if trigger else ""),
                         f"{surface}('F', {value!r}) crashed with {detail}; documented verdict: {expect}; "
                         f"forms={forms}")
            else:
                direction = "accept-invalid" if got == "accept" else "reject-valid"
                res.fail(f"{pid}/table/{direction}/{vname}/{level}/{flags}/{detail or '-'}",
                         f"{surface}('F', {value!r}) -> {got} {detail}; documented verdict: {expect} "
                         f"(required={required}); forms={forms}")
    return switches


# ------------------------------------------------------------------------------- (b) pairs
PAIR_KINDS = ["bool", "integer", "float", "string", "choice", "multichoice", "file", "object", "group", "data",
              "datagroup", "datavalue", "multiobject"]
PAIR_WS = {"objs": [{"cls": "Points", "n": 3, "data": ["float", "float", "int"],
                     "pgs": ["Multi-element", "3D vector"]},
                    {"cls": "Curve", "n": 2, "data": ["float", "float"], "pgs": ["Strike & dip"]}],
           "groups": 2, "dh": True}
PAIR_CASES = {
    "bool": ["ok", "int", "str", "float"],
    "integer": ["ok", "float", "str"],
    "float": ["ok", "ok-inf", "str", "bool"],
    "string": ["ok", "int", "float"],
    "choice": ["ok", "not-in-list", "int", "ok-semicolon", "joined-entries"],
    "multichoice": ["ok", "ok-one", "one-not-in-list", "int", "ok-semicolon"],
    "file": ["ok", "int"],
    "object": ["ok", "unknown", "ill-formed", "foreign", "int", "int-list"],
    "group": ["ok", "unknown", "ill-formed", "foreign", "int", "int-list"],
    "data": ["ok", "other-parent", "unknown", "ill-formed", "foreign", "int", "int-list"],
    "datagroup": ["ok", "other-type", "other-parent", "unknown", "int"],
    "datavalue": ["ok-value", "ok-property", "other-parent", "unknown", "ill-formed"],
    "multiobject": ["ok", "ok-one", "one-unknown", "int"],
}
PAIR_APIS = ["construct", "validate_data", "data_setter", "set_data_value"]
TYPE_INFERRED = {"bool", "integer", "float", "string", "file"}  # `construct` cannot carry a wrong type there


def pair_strategy():
    def case_for(kind):
        return st.fixed_dictionaries({
            "layer": st.just("pair"), "kind": st.just(kind), "vcase": st.sampled_from(PAIR_CASES[kind]),
            "api": st.sampled_from(PAIR_APIS), "present": st.sampled_from(["uuid", "uuid", "entity", "str"]),
            "opt": st.sampled_from([None, None, "enabled"]), "ref": st.integers(0, 20),
            "pick": st.integers(0, 20), "num": st.one_of(float_values(), int_values()),
            "text": plain_text(), "geoh5": st.sampled_from(["open_rw", "open_r", "path"]),
            "allow_known": st.sampled_from([False] * 9 + [True]),
            # what the process did before: nothing, or a ui.json with a multi-selection form was read (verdicts must
            # not depend on it)
            "prelude": st.sampled_from([None, None, "multiselect"]),
        })

    return st.one_of(*[case_for(kind) for kind in PAIR_KINDS])


def pair_grid():
    """Every (kind, value case, API, identifier presentation) once, other fields fixed."""
    grid = []
    for kind in PAIR_KINDS:
        identifiers = kind in ("object", "group", "data", "datagroup", "datavalue", "multiobject")
        for vcase in PAIR_CASES[kind]:
            for api in PAIR_APIS:
                for present in (["uuid", "entity", "str"] if identifiers else ["uuid"]):
                    grid.append({"layer": "pair", "kind": kind, "vcase": vcase, "api": api, "present": present,
                                 "opt": None, "ref": 0, "pick": 1, "num": {"t": "float", "v": "2.5"},
                                 "text": "abc", "geoh5": "path" if api == "construct" else "open_r",
                                 "allow_known": False})
                    if vcase == "int-list":
                        grid.append({**grid[-1], "prelude": "multiselect"})
    return grid


def run_pair(program, res, pid="C15"):
    """One (form kind, value) pair whose verdict is known by construction, through one API."""
    from copy import deepcopy

    from geoh5py.ui_json import InputFile, templates
    from geoh5py.ui_json.constants import default_ui_json
    from geoh5py.workspace import Workspace

    kind, vcase, api = program["kind"], program["vcase"], program["api"]
    present = program.get("present", "uuid")
    allow_known = bool(program.get("allow_known"))
    ws = other = opened = None
    try:
        ws, cat = build_workspace(PAIR_WS)
        ws.close()
        other, cat2 = build_workspace({"objs": [{"cls": "Points", "n": 2, "data": ["float"], "pgs": []}],
                                       "groups": 1, "dh": False}, stem="other")
        mode = program.get("geoh5", "open_rw")
        if api != "construct" and mode == "path":
            mode = "open_r"
        if mode == "path":
            geoh5_value = cat["path"]
        else:
            opened = Workspace(cat["path"], mode="r+" if mode == "open_rw" else "r")
            geoh5_value = opened
        uj = deepcopy(default_ui_json)
        uj["geoh5"] = geoh5_value
        obj0, obj1 = cat["objs"][0], cat["objs"][1]
        uj["o"] = templates.object_parameter(value=str(obj0["uid"]), label="parent")
        ref, pick = program.get("ref", 0), program.get("pick", 0)

        def ident(uid, how=present):
            if how == "entity":
                holder = opened
                found = present_uid(uid, "entity", holder)
                return found if not isinstance(found, str) else uid
            if how == "str":
                return str(uid)
            return uid

        if program.get("prelude") == "multiselect":
            first = {k: (v if k == "geoh5" else deepcopy(v)) for k, v in uj.items()}
            first["m"] = templates.object_parameter(value=[str(obj0["uid"])], multi_select=True)
            first["md"] = {**templates.data_parameter(parent="o", value=[str(obj0["data"][0]["uid"])]), "multiSelect": True}
            try:
                InputFile(ui_json=first)
                res.label("pair:after-a-multiselect-file")
            except Exception as exc:
                res.label(f"pair:prelude-refused:{type(exc).__name__}")
        unknown = _uuid.UUID(int=(ref + 1) * 7919 + 5, version=4)
        foreign_entity = other.get_entity(cat2["objs"][0]["uid"])[0]
        number = dec(program.get("num", {"t": "float", "v": "1.5"}))
        text = safe_text(program.get("text") or "abc")
        expect = "accept" if vcase.startswith("ok") else "reject"
        unspecified = None

        # ---- the form with a valid stored value, and the candidate value
        if kind == "bool":
            form = templates.bool_parameter(value=bool(ref % 2))
            value = {"ok": bool(pick % 2), "int": 1, "str": "True", "float": 1.0}[vcase]
        elif kind == "integer":
            form = templates.integer_parameter(value=ref)
            value = {"ok": int(number) if np.isfinite(number) else 7, "float": 1.5, "str": "1"}[vcase]
        elif kind == "float":
            form = templates.float_parameter(value=0.25 * ref)
            value = {"ok": float(number), "ok-inf": float("inf") if pick % 2 else float("-inf"), "str": "1.0",
                     "bool": True}[vcase]
        elif kind == "string":
            form = templates.string_parameter(value="stored")
            value = {"ok": text, "int": 5, "float": 2.5}[vcase]
        elif kind == "choice":
            # (entries are plain strings: an entry may contain a semicolon, and two entries joined by one are no entry)
            form = templates.choice_string_parameter(choice_list=["A", "B", text, "x; y " + text], value="A")
            value = {"ok": ["A", "B", text][pick % 3], "not-in-list": text + "?", "int": 3,
                     "ok-semicolon": "x; y " + text, "joined-entries": "A;B"}[vcase]
        elif kind == "multichoice":
            form = templates.choice_string_parameter(choice_list=["A", "B", text, "x; y " + text], value=["A"], multi_select=True)
            value = {"ok": ["B", text], "ok-one": ["A", "B", text][pick % 3:][:1], "one-not-in-list": ["A", text + "?"],
                     "int": 3, "ok-semicolon": ["A", "x; y " + text]}[vcase]
        elif kind == "file":
            form = templates.file_parameter(value="a.txt", file_type=("txt",), file_description=("text",))
            value = {"ok": "dir/" + (text.replace(";", "_") or "b") + ".txt", "int": 5}[vcase]
        elif kind in ("object", "group"):
            good = [o["uid"] for o in cat["objs"]] if kind == "object" else \
                [g["uid"] for g in cat["groups"]] + [cat["dhg"]["uid"]]
            maker = templates.object_parameter if kind == "object" else templates.group_parameter
            form = maker(value=str(good[ref % len(good)]))
            value = {"ok": lambda: ident(good[pick % len(good)]), "unknown": lambda: ident(unknown, "str" if present == "str" else "uuid"),
                     "ill-formed": lambda: "not-a-" + str(good[0])[6:], "foreign": lambda: foreign_entity,
                     "int": lambda: 5, "int-list": lambda: [1, 2]}[vcase]()
        elif kind == "multiobject":
            good = [o["uid"] for o in cat["objs"]]
            form = templates.object_parameter(value=[str(good[0])], multi_select=True)
            value = {"ok": lambda: [ident(g) for g in good], "ok-one": lambda: [ident(good[pick % 2])],
                     "one-unknown": lambda: [ident(good[0]), ident(unknown, "str" if present == "str" else "uuid")],
                     "int": lambda: 5}[vcase]()
        elif kind == "data":
            mine = [d["uid"] for d in obj0["data"]]
            theirs = [d["uid"] for d in obj1["data"]]
            form = templates.data_parameter(parent="o", value=str(mine[ref % len(mine)]))
            value = {"ok": lambda: ident(mine[pick % len(mine)]), "other-parent": lambda: ident(theirs[pick % len(theirs)]),
                     "unknown": lambda: ident(unknown, "str" if present == "str" else "uuid"),
                     "ill-formed": lambda: "zz" + str(mine[0])[2:], "foreign": lambda: foreign_entity,
                     "int": lambda: 5, "int-list": lambda: [1, 2]}[vcase]()
        elif kind == "datagroup":
            declared = obj0["pgs"][ref % 2]
            another = obj0["pgs"][(ref + 1) % 2]
            form = templates.data_parameter(parent="o", value=str(declared["uid"]), data_group_type=declared["type"])
            value = {"ok": lambda: ident(declared["uid"]), "other-type": lambda: ident(another["uid"]),
                     "other-parent": lambda: ident(obj1["pgs"][0]["uid"]),
                     "unknown": lambda: ident(unknown, "str" if present == "str" else "uuid"), "int": lambda: 5}[vcase]()
        elif kind == "datavalue":
            mine = [d["uid"] for d in obj0["data"]]
            theirs = [d["uid"] for d in obj1["data"]]
            form = templates.data_value_parameter(parent="o", value=1.0, is_value=True, prop=mine[0])
            value = {"ok-value": lambda: float(number) if isinstance(number, float) else int(number),
                     "ok-property": lambda: ident(mine[pick % len(mine)]),
                     "other-parent": lambda: ident(theirs[pick % len(theirs)]),
                     "unknown": lambda: ident(unknown, "str" if present == "str" else "uuid"),
                     "ill-formed": lambda: "zz" + str(mine[0])[2:]}[vcase]()
        else:  # pragma: no cover
            raise ValueError(kind)
        if program.get("opt"):
            form.update(templates.optional_parameter(program["opt"]))
        uj["x"] = form

        # identifiers given as text are only converted on the ui.json path (numify); elsewhere the
        # documentation does not say whether text identifiers are looked up -> unspecified, counted
        is_text_identifier = isinstance(value, str) and classify_string(value) == "uuid" or (
            isinstance(value, list) and any(isinstance(v, str) and classify_string(v) == "uuid" for v in value))
        if is_text_identifier and api != "construct" and expect == "reject":
            unspecified = "text-identifier-outside-ui_json"
        if api == "construct" and kind in TYPE_INFERRED and expect == "reject":
            unspecified = "type-inferred-from-stored-value"
        if api == "construct" and kind == "datavalue":
            if isinstance(value, (int, float)):
                uj["x"]["value"] = value
            else:
                uj["x"]["isValue"] = False
                uj["x"]["property"] = value if not hasattr(value, "uid") else value.uid
        elif api == "construct":
            uj["x"]["value"] = value
        known = None
        # KNOWN FINDING guards
        if kind == "datagroup" and expect == "accept" and (
                (api in ("set_data_value", "validate_data") and isinstance(value, _uuid.UUID))
                or (api != "construct" and isinstance(value, str))):
            # pgvalidator-uuid: PropertyGroupValidator reads value.property_group_type of an identifier
            if allow_known:
                known = "pgvalidator-uuid"
            else:
                value = ident(_uuid.UUID(str(value)), "entity")
                res.count("excluded_by_finding")
        if kind == "multiobject" and vcase == "one-unknown" and api in ("set_data_value", "validate_data"):
            # association-ignores-lists: AssociationValidator returns early for list values
            if allow_known:
                known = "association-ignores-lists"
            else:
                api = "data_setter"
                res.count("excluded_by_finding")

        res.label(f"pair:{kind}/{vcase}")
        res.label("pair-api:" + api)
        if isinstance(value, _uuid.UUID) or hasattr(value, "uid") or is_text_identifier:
            res.label("pair-present:" + ("entity" if hasattr(value, "uid") else "str" if isinstance(value, str)
                                         else "uuid"))
        if unspecified:
            res.count("pair_unspecified")
            res.label("pair-unspecified:" + unspecified)
            return False

        # ---- the call
        if api == "construct":
            got, detail = verdict_of(lambda: InputFile(ui_json=uj).data)
        else:
            try:
                ifile = InputFile(ui_json=uj)
                base = dict(ifile.data)
            except Exception as exc:  # the valid stored form itself was refused: harness expectation wrong?
                res.fail(f"{pid}/pair/reject-valid/{kind}/stored/{api}/{where_raised(exc)}",
                         f"InputFile refused a ui.json holding a valid {kind} form: {type(exc).__name__}: "
                         f"{str(exc)[:300]}")
                return False
            before = (uj_view(base), uj_view(ifile.ui_json), rules_view(ifile.validations))
            if api == "validate_data":
                data = dict(base)
                data["x"] = value
                got, detail = verdict_of(lambda: ifile.validators.validate_data(data))
            elif api == "data_setter":
                data = dict(base)
                data["x"] = value

                def assign():
                    ifile.data = data

                got, detail = verdict_of(assign)
            else:
                got, detail = verdict_of(lambda: ifile.set_data_value("x", value))
            if got != "accept":
                after = (uj_view(ifile.data), uj_view(ifile.ui_json), rules_view(ifile.validations))
                for what, a, b in zip(("data", "ui_json", "validations"), before, after):
                    if a != b:
                        res.fail(f"{pid}/pair/rejected-call-changed-state/{api}/{what}/{kind}",
                                 f"{api}('x', {value!r}) was refused ({detail}) but {what} changed: {a[:300]} -> "
                                 f"{b[:300]}")
        res.count("pair_verdicts")
        vclass = type(value).__name__ if not isinstance(value, list) else "list"
        ktag = f"/known:{known}" if known else ""
        if got == "crash":
            res.label("pair-crash:" + detail)
        if got != expect:
            if got == "crash" and expect == "reject":
                res.count("rejected_by_crash")
            elif got == "crash":
                res.fail(f"{pid}/pair/reject-valid/{kind}/{vcase}/{api}/crash:{detail}/{vclass}" + ktag,
                         f"{api}: valid {kind} value {value!r} crashed: {detail}")
            else:
                direction = "accept-invalid" if got == "accept" else "reject-valid"
                res.fail(f"{pid}/pair/{direction}/{kind}/{vcase}/{api}/{detail or '-'}/{vclass}" + ktag,
                         f"{api}: {kind} value {value!r} ({vcase}) -> {got} {detail}; by construction: {expect}")
        return True
    finally:
        env.close_quietly(opened, other, ws)


# ------------------------------------------------------------------------------- (c) histories
HISTORY_TARGETS = ["pool", "parameter", "form", "validator", "inputvalidation", "inputfile", "uijson",
                   "uijson_pairs"]

# value pools: (label, value) — JSON-able so that calls can be stored in programs
POOL_VALUES = [("a", "a"), ("b", "b"), ("c", "c"), ("int5", 5), ("float", 1.5), ("none", None), ("true", True),
               ("uuid", "12345678-1234-5678-1234-567812345678"), ("baduuid", "not-a-uuid"), ("list", ["a"])]
POOL_RULES = {
    "type-str+value": {"type": ["str"], "value": ["a", "b"]},
    "type-str+uuid": {"type": ["str"], "uuid": None},
    "type-int": {"type": ["int"]},
    "value": {"value": ["a", "b", 5]},
    "type-str+value+uuid": {"type": ["str"], "value": ["a", "12345678-1234-5678-1234-567812345678"], "uuid": None},
}
TYPES = {"str": str, "int": int, "float": float, "bool": bool, "list": list}
PARAM_CLASSES = ["StringParameter", "IntegerParameter", "FloatParameter", "NumericParameter", "BoolParameter",
                 "StringListParameter", "ValueRestricted", "TypeRestricted", "TwoRules"]
FORM_CLASSES = ["StringFormParameter", "BoolFormParameter", "IntegerFormParameter", "FloatFormParameter",
                "ChoiceStringFormParameter"]


def history_strategy(max_calls=8):
    pool_value = st.integers(0, len(POOL_VALUES) - 1)
    call = st.fixed_dictionaries({"v": pool_value, "op": st.integers(0, 9), "k": st.integers(0, 9),
                                  "num": st.one_of(float_values(), int_values())})

    def for_target(target):
        return st.fixed_dictionaries({
            "layer": st.just("history"), "target": st.just(target),
            "variant": st.integers(0, 20),
            "calls": st.lists(call, min_size=2, max_size=max_calls),
            "allow_known": st.sampled_from([False] * 9 + [True]),
        })

    return st.sampled_from(HISTORY_TARGETS + ["pool", "parameter", "inputfile", "inputvalidation"]).flatmap(for_target)


class HistoryState:
    def __init__(self):
        self.accepted_after_reject = False
        self.rejections = 0
        self.accepts = 0
        self.seen_reject = False
        self.calls = 0

    def note(self, fresh_verdict):
        self.calls += 1
        if fresh_verdict == "accept":
            self.accepts += 1
            if self.seen_reject:
                self.accepted_after_reject = True
        else:
            self.rejections += 1
            self.seen_reject = True


def compare_call(res, pid, target, op, used, fresh, what, known=None):
    """Differential statelessness: same call on the used object and on a fresh one."""
    if used == fresh:
        return True
    sig = f"{pid}/history/verdict-differs/{target}/{op}/used={used[0]}:{used[1] or '-'}/fresh={fresh[0]}:{fresh[1] or '-'}"
    if known:
        sig += f"/known:{known}"
    res.fail(sig, f"{target}.{op} {what}: used object -> {used}, fresh object -> {fresh}")
    return False


def make_pool(rules_name):
    from geoh5py.shared.utils import SetDict
    from geoh5py.ui_json.enforcers import EnforcerPool

    rules = POOL_RULES[rules_name]
    spec = {}
    for key, val in rules.items():
        if key == "type":
            spec[key] = [TYPES[t] for t in val]
        elif key == "uuid":
            spec[key] = None
        else:
            spec[key] = list(val)
    return EnforcerPool.from_validations("p", SetDict(**spec))


def rule_violations(rules_name, value) -> int:
    """Reference: how many of the pool's rules the value breaks (None passes type and uuid rules,
    as documented by `test_skip_validation_on_none_value` / TypeEnforcer.rule / UUIDEnforcer.rule)."""
    rules = POOL_RULES[rules_name]
    broken = 0
    if "type" in rules and value is not None:
        kinds = tuple(TYPES[t] for t in rules["type"])
        if not isinstance(value, kinds):
            broken += 1
    if "value" in rules:
        try:
            if value not in rules["value"]:
                broken += 1
        except TypeError:
            broken += 1
    if "uuid" in rules and value is not None:
        try:
            _uuid.UUID(str(value))
        except ValueError:
            broken += 1
    return broken


def run_history(program, res, pid="C15"):
    target = program["target"]
    res.label("history:" + target)
    runner = {"pool": hist_pool, "parameter": hist_parameter, "form": hist_form, "validator": hist_validator,
              "inputvalidation": hist_inputvalidation, "inputfile": hist_inputfile, "uijson": hist_uijson,
              "uijson_pairs": hist_uijson_pairs}[target]
    state = HistoryState()
    runner(program, res, pid, state)
    res.count("history_calls", state.calls)
    if state.accepted_after_reject:
        res.label("history:accept-after-reject")
    return state


# ---- EnforcerPool
def hist_pool(program, res, pid, state):
    names = sorted(POOL_RULES)
    rules_name = names[program.get("variant", 0) % len(names)]
    allow_known = bool(program.get("allow_known"))
    used = make_pool(rules_name)
    poisoned = False
    for call in program["calls"]:
        label, value = POOL_VALUES[call["v"] % len(POOL_VALUES)]
        if isinstance(value, list) and "value" in POOL_RULES[rules_name]:
            value = "c"  # unhashable vs set membership is not a validation question
            label = "c"
        broken = rule_violations(rules_name, value)
        # KNOWN FINDING guard (pool-keeps-errors): an aggregate (>= 2 broken rules) is never cleared
        if broken >= 2 and not allow_known:
            res.count("excluded_by_finding")
            continue
        got = verdict_of(lambda: used.enforce(value))
        fresh_pool = make_pool(rules_name)
        fresh = verdict_of(lambda: fresh_pool.enforce(value))
        state.note(fresh[0])
        expect = "accept" if broken == 0 else "reject"
        if fresh[0] != expect:
            res.fail(f"{pid}/history/fresh-verdict-wrong/pool/{rules_name}/{label}",
                     f"fresh EnforcerPool({rules_name}).enforce({value!r}) -> {fresh}, {broken} rules broken")
        res.label(f"pool-broken-rules:{broken}")
        ok = compare_call(res, pid, "pool", "enforce", got, fresh, f"({rules_name}, {value!r})",
                          "pool-keeps-errors" if poisoned else None)
        if broken >= 2:
            poisoned = True
        if not ok and not poisoned:
            break


# ---- Parameter
def make_parameter(variant):
    from geoh5py.ui_json import parameters as P

    name = PARAM_CLASSES[variant % len(PARAM_CLASSES)]
    if name == "ValueRestricted":
        return name, P.ValueRestrictedParameter("p", ["a", "b", 5])
    if name == "TypeRestricted":
        return name, P.TypeRestrictedParameter("p", [str, float])
    if name == "TwoRules":
        class TwoRules(P.Parameter):  # a user-defined parameter with two static rules (documented extension)
            static_validations = {"type": str, "value": ["a", "b"]}

        return name, TwoRules("p")
    return name, getattr(P, name)("p")


PARAM_ACCEPTS = {
    "StringParameter": lambda v: v is None or isinstance(v, str),
    "IntegerParameter": lambda v: v is None or isinstance(v, int),
    "FloatParameter": lambda v: v is None or isinstance(v, float),
    "NumericParameter": lambda v: v is None or isinstance(v, (int, float)),
    "BoolParameter": lambda v: v is None or isinstance(v, bool),
    "StringListParameter": lambda v: v is None or isinstance(v, (list, str)),
    "ValueRestricted": lambda v: not isinstance(v, list) and v in ["a", "b", 5],
    "TypeRestricted": lambda v: v is None or isinstance(v, (str, float)),
    "TwoRules": lambda v: not isinstance(v, list) and v in ["a", "b"],
}


def hist_parameter(program, res, pid, state):
    variant = program.get("variant", 0)
    allow_known = bool(program.get("allow_known"))
    cls_name, used = make_parameter(variant)
    res.label("parameter:" + cls_name)
    poisoned = False
    for call in program["calls"]:
        label, value = POOL_VALUES[call["v"] % len(POOL_VALUES)]
        if cls_name == "TwoRules" and value is not None and not isinstance(value, str) and not allow_known:
            res.count("excluded_by_finding")  # two rules broken at once: pool-keeps-errors
            continue
        expect = "accept" if PARAM_ACCEPTS[cls_name](value) else "reject"
        before = snap(used.value)

        def assign(target=used):
            target.value = value

        got = verdict_of(assign)
        _, fresh_param = make_parameter(variant)
        fresh = verdict_of(lambda: assign(fresh_param))
        state.note(fresh[0])
        if fresh[0] != expect and not (fresh[0] == "crash" and expect == "reject"):
            # (a list offered to a value rule is refused through a TypeError of the membership test: still a refusal)
            res.fail(f"{pid}/history/fresh-verdict-wrong/parameter/{cls_name}/{label}",
                     f"fresh {cls_name}.value = {value!r} -> {fresh}; by construction {expect}")
        ok = compare_call(res, pid, "parameter", "value", got, fresh, f"{cls_name} = {value!r}",
                          "pool-keeps-errors" if poisoned else None)
        if cls_name == "TwoRules" and value is not None and not isinstance(value, str):
            poisoned = True
        if got[0] != "accept":
            after = snap(used.value)
            if after != before:
                # (the finding parameter-stores-before-validating is repaired: guard retired); the stored value is put
                # back so that the history continues from the documented state.
                res.fail(f"{pid}/history/rejected-call-changed-state/parameter/value/{cls_name}",
                         f"{cls_name}.value = {value!r} was refused ({got[1]}) but value is now {after} (was {before})")
                used._value = dec_snap(before)  # pylint: disable=protected-access
        if not ok and not poisoned:
            break


def dec_snap(snapped):
    kind = snapped[0]
    if kind == "none":
        return None
    if kind == "int":
        return int(snapped[1])
    if kind == "float":
        return float.fromhex(snapped[1])
    if kind == "list":
        return [dec_snap(v) for v in snapped[1]]
    return snapped[1]


# ---- FormParameter
def make_form(variant):
    from geoh5py.ui_json import forms as F

    name = FORM_CLASSES[variant % len(FORM_CLASSES)]
    if name == "ChoiceStringFormParameter":
        return name, F.ChoiceStringFormParameter("x", choice_list=["a", "b"], value="a", label="L")
    start = {"StringFormParameter": "a", "BoolFormParameter": True, "IntegerFormParameter": 5,
             "FloatFormParameter": 1.5}[name]
    return name, getattr(F, name)("x", value=start, label="L")


FORM_VALUE_OK = {
    "StringFormParameter": lambda v: v is None or isinstance(v, str),
    "BoolFormParameter": lambda v: v is None or isinstance(v, bool),
    "IntegerFormParameter": lambda v: v is None or isinstance(v, int),
    "FloatFormParameter": lambda v: v is None or isinstance(v, float),
    "ChoiceStringFormParameter": lambda v: not isinstance(v, list) and v in ["a", "b"],
}
MEMBER_OPS = [("label", "text", lambda v: v is None or isinstance(v, str)),
              ("tooltip", "text", lambda v: v is None or isinstance(v, str)),
              ("main", "bool", lambda v: v is None or isinstance(v, bool)),
              ("dependency_type", "choice", lambda v: not isinstance(v, list) and v in ["enabled", "disabled"]),
              ("enabled", "bool", lambda v: v is None or isinstance(v, bool))]


def hist_form(program, res, pid, state):
    variant = program.get("variant", 0)
    allow_known = bool(program.get("allow_known"))
    cls_name, used = make_form(variant)
    res.label("form:" + cls_name)
    accepted_ops = []  # (member, value) accepted so far: replayed on the fresh form through the constructor
    for call in program["calls"]:
        label, value = POOL_VALUES[call["v"] % len(POOL_VALUES)]
        op = call["op"] % 4
        if op == 3:
            # validate(): required members present -> accept by construction
            got = verdict_of(used.validate)
            fresh_form = rebuild_form(variant, accepted_ops)
            fresh = verdict_of(fresh_form.validate)
            state.note(fresh[0])
            if not compare_call(res, pid, "form", "validate", got, fresh, cls_name):
                break
            continue
        if op in (0, 1):
            member, expect_fn = "value", FORM_VALUE_OK[cls_name]
            if cls_name == "ChoiceStringFormParameter" and isinstance(value, list):
                label, value = "c", "c"
        else:
            member, _kind, expect_fn = MEMBER_OPS[call["k"] % len(MEMBER_OPS)]
            if member == "dependency_type":
                value = ["enabled", "disabled", "sometimes", 5][call["v"] % 4]
        expect = "accept" if expect_fn(value) else "reject"
        before = uj_view(used.form())
        active_before = list(used.active)

        def assign(target=used, member=member, value=value):
            setattr(target, member, value)

        got = verdict_of(assign)
        fresh_form = rebuild_form(variant, accepted_ops)
        fresh = verdict_of(lambda: assign(fresh_form))
        state.note(fresh[0])
        if fresh[0] != expect:
            res.fail(f"{pid}/history/fresh-verdict-wrong/form/{cls_name}/{member}/{label}",
                     f"fresh {cls_name}.{member} = {value!r} -> {fresh}; by construction {expect}")
        if not compare_call(res, pid, "form", member, got, fresh, f"{cls_name}.{member} = {value!r}"):
            break
        if got[0] == "accept":
            accepted_ops.append((member, value))
        else:
            after = uj_view(used.form())
            if after != before or list(used.active) != active_before:
                sig = f"{pid}/history/rejected-call-changed-state/form/{member}/known:parameter-stores-first"
                if allow_known:
                    res.fail(sig, f"{cls_name}.{member} = {value!r} was refused ({got[1]}) but the form changed: "
                                  f"{before} -> {after}; active {active_before} -> {list(used.active)}")
                else:
                    res.count("excluded_by_finding")
                # continue from the documented state
                used = rebuild_form(variant, accepted_ops)


def rebuild_form(variant, accepted_ops):
    _, form = make_form(variant)
    for member, value in accepted_ops:
        getattr(form, f"_{member}")._value = value  # pylint: disable=protected-access
        if member != "value" and member not in form._active_members:  # pylint: disable=protected-access
            form._active_members.append(member)  # pylint: disable=protected-access
    return form


# ---- validator instances (shared `valid` objects must not be mutated, verdicts must not drift)
def hist_validator(program, res, pid, state):
    from geoh5py.shared import validators as V

    variant = program.get("variant", 0) % 4
    which = ["types", "values", "uuid", "optional"][variant]
    cls = {"types": V.TypeValidator, "values": V.ValueValidator, "uuid": V.UUIDValidator,
           "optional": V.OptionalValidator}[which]
    res.label("validator:" + which)
    used = cls()
    shared_valid = {"types": [str, float], "values": ["a", "b", 5], "uuid": None, "optional": False}[which]
    for call in program["calls"]:
        label, value = POOL_VALUES[call["v"] % len(POOL_VALUES)]
        if which == "types":
            flat = value if isinstance(value, list) else [value]
            expect = "accept" if all(isinstance(v, (str, float)) for v in flat) else "reject"
        elif which == "values":
            flat = value if isinstance(value, list) else [value]
            expect = "accept" if value is None or all(v is None or v in ["a", "b", 5] for v in flat) else "reject"
        elif which == "uuid":
            expect = "reject" if isinstance(value, str) and classify_string(value) != "uuid" else "accept"
        else:
            expect = "reject" if value is None else "accept"
        view_before = rules_view(shared_valid)
        got = verdict_of(lambda: used("p", value, shared_valid))
        fresh_valid = {"types": [str, float], "values": ["a", "b", 5], "uuid": None, "optional": False}[which]
        fresh = verdict_of(lambda: cls()("p", value, fresh_valid))
        state.note(fresh[0])
        if fresh[0] != expect:
            res.fail(f"{pid}/history/fresh-verdict-wrong/validator/{which}/{label}",
                     f"{cls.__name__}('p', {value!r}, {fresh_valid}) -> {fresh}; by construction {expect}")
        if rules_view(shared_valid) != view_before:
            res.fail(f"{pid}/history/call-changed-rules/validator/{which}",
                     f"{cls.__name__} mutated its `valid` argument: {view_before} -> {rules_view(shared_valid)}")
        if not compare_call(res, pid, "validator", which, got, fresh, f"{value!r}"):
            break


# ---- InputValidation
def iv_forms(variant):
    from geoh5py.ui_json import templates

    forms = {
        "f": templates.float_parameter(value=1.5),
        "s": templates.string_parameter(value="text"),
        "c": templates.choice_string_parameter(choice_list=["a", "b"], value="a"),
        "i": templates.integer_parameter(value=3, optional="enabled"),
        "a": templates.float_parameter(value=2.5, optional="disabled"),
        "b": templates.float_parameter(value=3.5, optional="disabled"),
        "m": templates.choice_string_parameter(choice_list=["a", "b", "c"], value=["a"], multi_select=True,
                                               optional="disabled"),
    }
    extra = None
    if variant % 2:
        extra = {"a": {"one_of": "a-or-b"}, "b": {"one_of": "a-or-b"}}
    return forms, extra


IV_KEYS = ["f", "s", "c", "i", "a", "b", "m"]


def iv_expect(key, value, forms):
    """By-construction verdict of one (form, value) for the fixed forms of `iv_forms`."""
    if value is None:
        return "accept" if forms[key].get("enabled", True) is False else "reject"
    if key in ("f", "a", "b"):
        return "accept" if isinstance(value, float) else "reject"
    if key == "s":
        return "accept" if isinstance(value, str) else ("unspecified" if isinstance(value, list) else "reject")
    if key == "i":
        if isinstance(value, bool):
            return "unspecified"
        return "accept" if isinstance(value, int) else "reject"
    if key == "c":
        if isinstance(value, list):
            return "unspecified"
        return "accept" if value in ("a", "b") else "reject"
    if key == "m":
        flat = value if isinstance(value, list) else [value]
        return "accept" if all(isinstance(v, str) and v in ("a", "b", "c") for v in flat) else "reject"
    return "unspecified"


def hist_inputvalidation(program, res, pid, state):
    from copy import deepcopy

    from geoh5py.ui_json import InputValidation

    variant = program.get("variant", 0)
    allow_known = bool(program.get("allow_known"))
    forms, extra = iv_forms(variant)
    res.label("inputvalidation:" + ("one_of" if extra else "plain"))

    def build():
        return InputValidation(ui_json=deepcopy(forms), validations=deepcopy(extra))

    used = build()
    for call in program["calls"]:
        label, value = POOL_VALUES[call["v"] % len(POOL_VALUES)]
        key = IV_KEYS[call["k"] % len(IV_KEYS)]
        whole = call["op"] % 3 == 0
        rules_before = rules_view(used.validations)
        if whole:
            data = reference_flat(forms)
            data[key] = value
            one_of_breaks = bool(extra) and data["a"] is None and data["b"] is None
            expect = iv_expect(key, value, forms)
            if expect == "accept" and one_of_breaks:
                expect = "reject"
            # KNOWN FINDING guard (validate-data-pops-one-of): validate_data removes the `one_of` rules from
            # the shared rule table, so only the first call enforces them
            if extra and not allow_known:
                res.count("excluded_by_finding")
                continue
            got = verdict_of(lambda: used.validate_data(dict(data)))
            fresh_iv = build()
            fresh = verdict_of(lambda: fresh_iv.validate_data(dict(data)))
            what = f"validate_data({key}={value!r}, a={data['a']!r}, b={data['b']!r})"
            op = "validate_data"
        else:
            if extra and key in extra:
                # InputValidation.validate() on a parameter carrying a `one_of` rule is not a documented
                # use (InputFile.set_data_value strips the rule first): counted, not judged
                res.count("history_unspecified")
                continue
            expect = iv_expect(key, value, forms)
            got = verdict_of(lambda: used.validate(key, value))
            fresh_iv = build()
            fresh = verdict_of(lambda: fresh_iv.validate(key, value))
            what = f"validate({key!r}, {value!r})"
            op = "validate"
        state.note(fresh[0])
        if expect != "unspecified" and fresh[0] != expect and not (fresh[0] == "crash" and expect == "reject"):
            res.fail(f"{pid}/history/fresh-verdict-wrong/inputvalidation/{op}/{key}/{label}",
                     f"fresh InputValidation.{what} -> {fresh}; by construction {expect}")
        known = "validate-data-pops-one-of" if (extra and allow_known) else None
        if rules_view(used.validations) != rules_before:
            sig = f"{pid}/history/call-changed-rules/inputvalidation/{op}"
            res.fail(sig + (f"/known:{known}" if known else ""),
                     f"{what} changed the rule table: {rules_before} -> {rules_view(used.validations)}")
        if not compare_call(res, pid, "inputvalidation", op, got, fresh, what, known):
            if not known:
                break


# ---- InputFile (data setter, set_data_value)
def copy_tree(value):
    """Structural copy: containers are copied, leaves (entities, workspaces, uuids) shared."""
    if isinstance(value, dict):
        return {k: copy_tree(v) for k, v in value.items()}
    if isinstance(value, list):
        return [copy_tree(v) for v in value]
    return value


# "od": object and data re-assigned together through the data setter (another parent object, a channel of it or not)
IF_KEYS = ["f", "fo", "s", "c", "o", "d", "a", "b", "od", "od"]


def hist_inputfile(program, res, pid, state):
    from copy import deepcopy

    from geoh5py.ui_json import InputFile, templates
    from geoh5py.ui_json.constants import default_ui_json
    from geoh5py.workspace import Workspace

    variant = program.get("variant", 0)
    allow_known = bool(program.get("allow_known"))
    ws = opened = None
    try:
        ws, cat = build_workspace(DEFAULT_WS)
        ws.close()
        opened = Workspace(cat["path"], mode="r")
        obj0, obj1 = cat["objs"][0], cat["objs"][1]
        uj = deepcopy(default_ui_json)
        uj["geoh5"] = opened
        uj["o"] = templates.object_parameter(value=str(obj0["uid"]))
        uj["d"] = templates.data_parameter(parent="o", value=str(obj0["data"][0]["uid"]))
        uj["f"] = templates.float_parameter(value=1.5)
        uj["fo"] = templates.float_parameter(value=2.5, optional="disabled")
        uj["s"] = templates.string_parameter(value="text")
        uj["c"] = templates.choice_string_parameter(choice_list=["a", "b"], value="a")
        uj["a"] = templates.float_parameter(value=3.5, optional="disabled")
        uj["b"] = templates.float_parameter(value=4.5, optional="enabled")
        extra = {"a": {"one_of": "a-or-b"}, "b": {"one_of": "a-or-b"}} if variant % 2 else None
        res.label("inputfile:" + ("one_of" if extra else "plain"))
        used = InputFile(ui_json=copy_tree(uj), validations=deepcopy(extra))
        used.data  # pylint: disable=pointless-statement
        unknown = _uuid.UUID(int=424242, version=4)
        objs = [obj0, obj1]
        cur = 0  # index of the object the forms currently select
        enabled_at_start = {k: f.get("enabled", True) for k, f in used.ui_json.items() if isinstance(f, dict)}
        for call in program["calls"]:
            key = IF_KEYS[call["k"] % len(IF_KEYS)]
            label, value = POOL_VALUES[call["v"] % len(POOL_VALUES)]
            number = dec(call.get("num", {"t": "float", "v": "1.5"}))
            child = [d["uid"] for d in objs[cur]["data"]]
            stranger = objs[1 - cur]["data"][0]["uid"]
            pair = None
            if key == "od":
                i, j = (call["v"] // 2) % 2, call["v"] % 2
                pair = (objs[i]["uid"], objs[j]["data"][call["op"] % len(objs[j]["data"])]["uid"])
                label, value = f"obj{i}+data-of-obj{j}", pair
                res.label("inputfile-pair:" + ("other-object" if i != cur else "same-object") +
                          ("/own-channel" if i == j else "/foreign-channel"))
            elif key == "o":
                label, value = [("same", objs[cur]["uid"]), ("unknown", unknown), ("ill-formed", "not-a-uuid"),
                                ("int5", 5), ("entity", opened.get_entity(objs[cur]["uid"])[0])][call["v"] % 5]
            elif key == "d":
                label, value = [("child", child[call["op"] % len(child)]), ("stranger", stranger),
                                ("unknown", unknown), ("ill-formed", "not-a-uuid"), ("int5", 5),
                                ("child-entity", opened.get_entity(child[0])[0]),
                                ("stranger-entity", opened.get_entity(stranger)[0])][call["v"] % 7]
            elif key in ("f", "fo", "a", "b") and call["v"] % 3 == 0:
                label, value = "number", number
            use_setter = call["op"] % 2 == 0 or pair is not None
            op = "data_setter" if use_setter else "set_data_value"
            form_now = used.ui_json["d" if pair else key]
            # ---- by construction
            if pair is not None:
                expect = "accept" if label.endswith(label[3]) else "reject"
            elif value is None:
                expect = "accept" if form_now.get("enabled", True) is False else "reject"
            elif key in ("f", "fo", "a", "b"):
                expect = "accept" if isinstance(value, float) else ("unspecified" if isinstance(value, list)
                                                                    else "reject")
            elif key == "s":
                expect = "accept" if isinstance(value, str) else ("unspecified" if isinstance(value, list)
                                                                  else "reject")
                if isinstance(value, str) and classify_string(value) != "str":
                    res.count("history_unspecified")  # text that a ui.json converts to another kind
                    continue
            elif key == "c":
                expect = "unspecified" if isinstance(value, list) else ("accept" if value in ("a", "b") else "reject")
            elif key == "o":
                expect = "accept" if label in ("same", "entity") else "reject"
            else:
                expect = "accept" if label in ("child", "child-entity") else "reject"
            if expect == "unspecified":
                # not judged and not executed: an accepted assignment would change the form the next calls see
                res.count("history_unspecified")
                continue
            # KNOWN FINDING guard (stale-optional): the None rule is frozen when the InputFile is built;
            # it is not refreshed when an accepted value flips the parameter's `enabled` member
            flipped = form_now.get("enabled", True) != enabled_at_start.get(key, True)
            if value is None and flipped and not allow_known:
                res.count("excluded_by_finding")
                continue
            one_of_now = bool(extra) and use_setter
            if one_of_now and not allow_known:
                res.count("excluded_by_finding")  # validate-data-pops-one-of
                continue
            before = (uj_view(used.data), uj_view(used.ui_json), rules_view(used.validations))
            rules_before = rules_view(used.validators.validations)

            def perform(target, key=key, value=value, use_setter=use_setter, pair=pair):
                if pair is not None:
                    data = dict(target.data)
                    data["o"], data["d"] = pair
                    target.data = data
                elif use_setter:
                    data = dict(target.data)
                    data[key] = value
                    target.data = data
                else:
                    target.set_data_value(key, value)

            tree_before = copy_tree(used.ui_json)  # the current forms: what the fresh object starts from
            got = verdict_of(lambda: perform(used))
            try:
                fresh_file = InputFile(ui_json=tree_before, validations=deepcopy(extra))
                fresh_file.data  # pylint: disable=pointless-statement
            except Exception as exc:
                res.fail(f"{pid}/history/fresh-construct-raises/inputfile/{where_raised(exc)}",
                         f"a fresh InputFile on the current form state was refused: {type(exc).__name__}: "
                         f"{str(exc)[:300]}")
                break
            fresh = verdict_of(lambda: perform(fresh_file))
            state.note(fresh[0])
            what = f"{op}({key!r}, {label}={value!r})"
            if expect != "unspecified" and fresh[0] != expect and not (fresh[0] == "crash" and expect == "reject"):
                res.fail(f"{pid}/history/fresh-verdict-wrong/inputfile/{op}/{key}/{label}",
                         f"fresh InputFile.{what} -> {fresh}; by construction {expect}")
            known = None
            if allow_known and value is None and flipped:
                known = "stale-optional"
            elif allow_known and one_of_now:
                known = "validate-data-pops-one-of"
            if rules_view(used.validators.validations) != rules_before:
                sig = f"{pid}/history/call-changed-rules/inputfile/{op}"
                res.fail(sig + (f"/known:{known}" if known else ""),
                         f"{what} changed the validators' rule table")
            same = compare_call(res, pid, "inputfile", op, got, fresh, what, known)
            if pair is not None and got[0] == "accept" and expect == "accept":
                cur = int(label[3])
            if got[0] != "accept":
                after = (uj_view(used.data), uj_view(used.ui_json), rules_view(used.validations))
                for name, a, b in zip(("data", "ui_json", "validations"), before, after):
                    if a != b:
                        res.fail(f"{pid}/history/rejected-call-changed-state/inputfile/{op}/{name}",
                                 f"{what} was refused ({got[1]}) but {name} changed: {a[:400]} -> {b[:400]}")
            if not same and not known:
                break
    finally:
        env.close_quietly(opened, ws)


# ---- UIJson (validate / update on the same object)
def hist_uijson(program, res, pid, state):
    from geoh5py.ui_json import forms as F
    from geoh5py.ui_json import parameters as P
    from geoh5py.ui_json.ui_json import UIJson

    allow_known = bool(program.get("allow_known"))
    ws = None
    try:
        ws, _cat = build_workspace({"objs": [{"cls": "Points", "n": 2, "data": ["float"], "pgs": []}],
                                    "groups": 1, "dh": False})
        ws.close()

        def parameters():
            return {
                "title": P.StringParameter("title", value="my application"),
                "geoh5": P.WorkspaceParameter("geoh5", value=ws),
                "run_command": P.StringParameter("run_command"),
                "run_command_boolean": F.BoolFormParameter("run_command_boolean", label="Run", value=False),
                "monitoring_directory": P.StringParameter("monitoring_directory"),
                "conda_environment": P.StringParameter("conda_environment"),
                "conda_environment_boolean": P.BoolParameter("conda_environment_boolean"),
                "workspace": P.WorkspaceParameter("workspace"),
                "flag": F.BoolFormParameter("flag", label="Flag", value=True),
                "tol": F.FloatFormParameter("tol", label="Tolerance", value=1.5, dependency="flag"),
            }

        params = parameters()
        used = UIJson(params)
        removed = {}
        poisoned = False
        for call in program["calls"]:
            op = call["op"] % 5
            if op in (1, 2):
                name = ["title", "flag", "run_command"][call["k"] % 3]
                if op == 1 and name in used.parameters:
                    removed[name] = used.parameters.pop(name)
                    res.label("uijson:parameter-removed")
                elif op == 2 and name in removed:
                    used.parameters[name] = removed.pop(name)
                continue
            if op == 3:
                label, value = POOL_VALUES[call["v"] % len(POOL_VALUES)]
                target = used.parameters.get("tol")
                before = snap(target.value)
                expect = "accept" if value is None or isinstance(value, float) else "reject"

                def assign(obj):
                    obj.parameters["tol"].value = value

                got = verdict_of(lambda: assign(used))
                fresh_params = parameters()
                fresh = verdict_of(lambda: assign(UIJson(fresh_params)))
                state.note(fresh[0])
                if fresh[0] != expect:
                    res.fail(f"{pid}/history/fresh-verdict-wrong/uijson/value/{label}",
                             f"fresh UIJson tol = {value!r} -> {fresh}; by construction {expect}")
                if not compare_call(res, pid, "uijson", "value", got, fresh, f"tol = {value!r}"):
                    break
                if got[0] != "accept" and snap(target.value) != before:
                    if allow_known:
                        res.fail(f"{pid}/history/rejected-call-changed-state/uijson/value/known:parameter-stores-first",
                                 f"tol = {value!r} refused but value is now {snap(target.value)}")
                    else:
                        res.count("excluded_by_finding")
                    target._value._value = dec_snap(before)  # pylint: disable=protected-access
                continue
            missing = [n for n in ("title", "flag", "run_command") if n not in used.parameters]
            # KNOWN FINDING guard (pool-keeps-errors): two missing rules at once poison the pool
            two_rules = "flag" in missing and ("title" in missing or "run_command" in missing)
            if two_rules and not allow_known:
                res.count("excluded_by_finding")
                continue
            expect = "accept" if not missing else "reject"
            got = verdict_of(used.validate)
            # a fresh object built as the used one was (all parameters), then brought to the same state
            fresh_obj = UIJson({**used.parameters, **removed})
            for name in removed:
                fresh_obj.parameters.pop(name)
            fresh = verdict_of(fresh_obj.validate)
            state.note(fresh[0])
            if fresh[0] != expect:
                res.fail(f"{pid}/history/fresh-verdict-wrong/uijson/validate/missing={'+'.join(missing) or '-'}",
                         f"fresh UIJson.validate() -> {fresh}; missing parameters {missing}")
            known = "pool-keeps-errors" if allow_known and poisoned else None
            if two_rules:
                poisoned = True
            if not compare_call(res, pid, "uijson", "validate", got, fresh, f"missing={missing}", known):
                if not known:
                    break
    finally:
        env.close_quietly(ws)


# ---- UIJson with several object / data selectors: cross-parameter rules
def hist_uijson_pairs(program, res, pid, state):
    """One UIJson holding two object selectors and three data selectors (two on the first object, one on the
    second). Calls re-assign selectors (own object / the other object / an object of another file; a child of the
    declared parent / of the other object / of the foreign object) and validate. By construction the whole is valid
    iff every object lies in the file of the ui.json and every channel is a child of the object its `parent` names,
    whatever the position of the offending parameter."""
    import itertools

    from geoh5py.objects import Points
    from geoh5py.ui_json import forms as F
    from geoh5py.ui_json import parameters as P
    from geoh5py.ui_json.ui_json import UIJson
    from geoh5py.workspace import Workspace

    ws = ws2 = None
    try:
        ws = Workspace.create(env.new_path("uj"))
        ws2 = Workspace.create(env.new_path("uj_other"))
        verts = np.array([[float(i), 0.0, 0.0] for i in range(3)])
        objs, kids = {}, {}
        for name, where in (("survey", ws), ("mesh", ws), ("stranger", ws2)):
            objs[name] = Points.create(where, name=name, vertices=verts)
            kids[name] = [objs[name].add_data({f"{name}_{i}": {"values": np.arange(3.0) + i}}) for i in range(2)]
        ws.close()
        ws2.close()
        variant = program.get("variant", 0)
        selectors = ["survey", "mesh", "x_channel", "y_channel", "z_channel"]
        order = list(list(itertools.permutations(range(5)))[(variant * 7) % 120])
        parent_of = {"x_channel": "survey", "y_channel": "survey", "z_channel": "mesh"}
        points_type = str(Points.default_type_uid())

        def parameters(values):
            out = {
                "title": P.StringParameter("title", value="my application"),
                "geoh5": P.WorkspaceParameter("geoh5", value=ws),
                "run_command": P.StringParameter("run_command"),
                "run_command_boolean": F.BoolFormParameter("run_command_boolean", label="Run", value=False),
                "monitoring_directory": P.StringParameter("monitoring_directory"),
                "conda_environment": P.StringParameter("conda_environment"),
                "conda_environment_boolean": P.BoolParameter("conda_environment_boolean"),
                "workspace": P.WorkspaceParameter("workspace"),
            }
            for idx in order:
                name = selectors[idx]
                if name in parent_of:
                    out[name] = F.DataFormParameter(name, label=name, parent=parent_of[name], association="Vertex",
                                                    data_type="Float", value=values[name])
                else:
                    out[name] = F.ObjectFormParameter(name, label=name, mesh_type=[points_type], value=values[name])
            return out

        current = {"survey": objs["survey"], "mesh": objs["mesh"], "x_channel": kids["survey"][0],
                   "y_channel": kids["survey"][1], "z_channel": kids["mesh"][0]}
        used = UIJson(parameters(current))

        def expected(values):
            for name in ("survey", "mesh"):
                if values[name].workspace is not ws:
                    return "reject"
            for name, par in parent_of.items():
                if values[name].parent is not values[par]:
                    return "reject"
            return "accept"

        def choice(name, k, v):
            if name in parent_of:
                owner = [current[parent_of[name]].name, "survey", "mesh", "stranger"][k % 4]
                if owner not in kids:
                    owner = "stranger"
                return kids[owner][v % 2]
            return objs[["survey", "mesh", name, "stranger"][k % 4]]

        for call in program["calls"]:
            op = call["op"] % 4
            if op in (1, 2, 3):
                names = [selectors[call["k"] % 5]]
                if op == 3:
                    names.append(selectors[(call["k"] + 1 + call["v"]) % 5])
                update = {name: choice(name, call["v"] + i, call["k"] + i) for i, name in enumerate(dict.fromkeys(names))}
                got = verdict_of(lambda: used.update(update))
                if got[0] != "accept":
                    res.fail(f"{pid}/history/update-refused/uijson_pairs/{got[0]}:{got[1]}",
                             f"UIJson.update({sorted(update)}) with entities of the declared kind -> {got}")
                    break
                current.update(update)
                res.label("uijson_pairs:" + ("two-updated" if len(update) > 1 else "one-updated"))
                continue
            expect = expected(current)
            bad = [n for n in selectors if (n in parent_of and current[n].parent is not current[parent_of[n]])
                   or (n not in parent_of and current[n].workspace is not ws)]
            position = "-"
            if bad:
                placed = [selectors[i] for i in order]
                position = "last" if max(placed.index(n) for n in bad) == 4 else "not-last"
                res.label("uijson_pairs:invalid-" + position)
            got = verdict_of(used.validate)
            fresh = verdict_of(UIJson(parameters(current)).validate)
            state.note(fresh[0])
            if fresh[0] != expect:
                res.fail(f"{pid}/history/fresh-verdict-wrong/uijson_pairs/validate/{expect}-expected/{position}",
                         f"fresh UIJson.validate() -> {fresh}; parameters in order {[selectors[i] for i in order]}, "
                         f"offending {bad}")
            if not compare_call(res, pid, "uijson_pairs", "validate", (got[0], ""), (fresh[0], ""), f"offending={bad}"):
                break
    finally:
        env.close_quietly(ws, ws2)
