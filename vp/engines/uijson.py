"""Engine `uijson`: ui.json dictionaries built from `geoh5py.ui_json.templates`, their values,
a small deterministic workspace they refer to, and the reference rules used by C14 / C15.

Everything here is driven by plain-data *programs*; nothing draws random numbers at execution time.
The reference side (value classes, expected data, the "is a value required" decision table, the
strict JSON reader) is written from the ui.json documentation (`docs/content/uijson_format`) and the
docstrings of `requires_value` / `BaseForm`, never by calling the functions under test.
"""
from __future__ import annotations

import json
import os
import traceback
import uuid as _uuid
from pathlib import Path

import numpy as np
from hypothesis import strategies as st

from .. import env

# =============================================================================== workspace fixture
PG_TYPES = ["Multi-element", "3D vector", "Dip direction & dip", "Strike & dip"]
PG_SIZE = {"Multi-element": 2, "3D vector": 3, "Dip direction & dip": 2, "Strike & dip": 2}
DATA_KINDS = ["float", "int", "text"]
DATA_TYPE_NAME = {"float": "Float", "int": "Integer", "text": "Text"}


def ws_spec_strategy():
    obj = st.fixed_dictionaries({
        "cls": st.sampled_from(["Points", "Curve"]),
        "n": st.integers(2, 5),
        "data": st.lists(st.sampled_from(DATA_KINDS), min_size=1, max_size=4),
        "pgs": st.lists(st.sampled_from(PG_TYPES), min_size=0, max_size=2, unique=True),
    })
    return st.fixed_dictionaries({
        "objs": st.lists(obj, min_size=1, max_size=3),
        "groups": st.integers(1, 2),
        "dh": st.booleans(),
    })


DEFAULT_WS = {"objs": [{"cls": "Points", "n": 3, "data": ["float", "float", "int"], "pgs": ["Multi-element"]},
                       {"cls": "Curve", "n": 2, "data": ["float"], "pgs": []}],
              "groups": 1, "dh": False}


def build_workspace(spec: dict, stem: str = "ws"):
    """Create the workspace described by `spec` on disk; return (open workspace, catalog).

    catalog = {"path", "objs": [{"uid","cls","data":[{"uid","kind","cls"}], "pgs":[{"uid","type"}]}],
               "groups": [{"uid","cls"}], "dhg": {"uid","cls","names"} | None}
    """
    from geoh5py.groups import ContainerGroup, DrillholeGroup
    from geoh5py.objects import Curve, Drillhole, Points
    from geoh5py.workspace import Workspace

    path = env.new_path(stem)
    ws = Workspace.create(path)
    cat = {"path": str(path), "objs": [], "groups": [], "dhg": None}
    parent = None
    for gi in range(max(1, int(spec.get("groups", 1)))):
        grp = ContainerGroup.create(ws, name=f"grp{gi}", **({"parent": parent} if parent is not None else {}))
        cat["groups"].append({"uid": grp.uid, "cls": type(grp).__name__})
        parent = grp
    if spec.get("dh"):
        dhg = DrillholeGroup.create(ws, name="dhg", parent=parent)
        hole = Drillhole.create(ws, parent=dhg, name="hole0", collar=[0.0, 0.0, 0.0],
                                surveys=np.array([[0.0, 0.0, -90.0], [10.0, 0.0, -90.0]]))
        hole.add_data({"au": {"values": np.array([1.0, 2.0]), "from-to": np.array([[0.0, 1.0], [1.0, 2.0]])},
                       "cu": {"values": np.array([3.0, 4.0]), "from-to": np.array([[0.0, 1.0], [1.0, 2.0]])}})
        cat["dhg"] = {"uid": dhg.uid, "cls": type(dhg).__name__, "names": ["au", "cu"]}
    for oi, ospec in enumerate(spec["objs"]):
        n = max(2, int(ospec.get("n", 3)))
        verts = np.array([[float(i), float(oi), 0.5 * i] for i in range(n)])
        cls = Curve if ospec.get("cls") == "Curve" else Points
        obj = cls.create(ws, vertices=verts, name=f"obj{oi}", parent=cat_parent(ws, cat, oi))
        entry = {"uid": obj.uid, "cls": type(obj).__name__, "data": [], "pgs": []}
        kinds = list(ospec.get("data") or ["float"])
        n_pg = sum(PG_SIZE[t] for t in ospec.get("pgs", []))
        while sum(1 for k in kinds if k == "float") < max(1, min(3, n_pg)):
            kinds.append("float")
        floats = []
        for di, kind in enumerate(kinds):
            if kind == "int":
                values = np.arange(n, dtype="int32") + di
            elif kind == "text":
                values = np.array([f"t{i}" for i in range(n)])
            else:
                values = np.arange(n, dtype=float) / 4.0 + di
            data = obj.add_data({f"d{oi}_{di}": {"values": values}})
            entry["data"].append({"uid": data.uid, "kind": kind, "cls": type(data).__name__})
            if kind == "float":
                floats.append(data)
        for pi, ptype in enumerate(ospec.get("pgs", [])):
            members = [floats[(pi + k) % len(floats)] for k in range(min(PG_SIZE[ptype], len(floats)))]
            members = list(dict.fromkeys(members))
            group = obj.create_property_group(name=f"pg{oi}_{pi}", property_group_type=ptype,
                                              properties=[m.uid for m in members])
            ws.add_or_update_property_group(group)
            entry["pgs"].append({"uid": group.uid, "type": ptype, "cls": type(group).__name__})
        cat["objs"].append(entry)
    return ws, cat


def cat_parent(ws, cat, oi):
    groups = cat["groups"]
    if oi % 2 == 0 or not groups:
        return ws.root
    return ws.get_entity(groups[oi % len(groups)]["uid"])[0]


# =============================================================================== value encoding
def enc_float(value: float) -> dict:
    return {"t": "float", "v": repr(float(value))}


def dec(value):
    """Decode a program value (tagged dicts for what JSON cannot carry exactly)."""
    if isinstance(value, dict) and "t" in value:
        if value["t"] == "float":
            return float(value["v"])
        if value["t"] == "int":
            return int(value["v"])
        raise ValueError(f"unknown tag {value}")
    if isinstance(value, list):
        return [dec(v) for v in value]
    return value


INT_SPECIALS = [0, 1, -1, 2 ** 31 - 1, 2 ** 31, -(2 ** 31) - 1, 2 ** 53 + 1, -(2 ** 53) - 1, 2 ** 63 - 1, 2 ** 63,
                -(2 ** 63), 10 ** 15]
FLOAT_SPECIALS = [0.0, -0.0, 0.1, 1.0 / 3.0, 1.0, -1.5, 1e16, 1e22, 1.7976931348623157e308, 5e-324,
                  2.2250738585072014e-308, 2.225073858507201e-308, float("inf"), float("-inf"), 1e-5,
                  123456789.12345679, 4.35, 0.30000000000000004]


def int_values():
    return st.one_of(st.integers(-1000, 1000), st.sampled_from(INT_SPECIALS),
                     st.integers(-(2 ** 63), 2 ** 63)).map(lambda v: {"t": "int", "v": str(v)})


def float_values(allow_inf=True):
    base = st.one_of(st.floats(allow_nan=False, allow_infinity=allow_inf),
                     st.sampled_from([f for f in FLOAT_SPECIALS if allow_inf or np.isfinite(f)]),
                     st.floats(allow_nan=False, allow_infinity=False, allow_subnormal=True, min_value=-1e-300,
                               max_value=1e-300),
                     *([st.sampled_from([float("inf"), float("-inf")])] if allow_inf else []))
    return base.map(enc_float)


# strings that look like another value kind.  The first group has a *documented* conversion
# ("" is None, "inf"/"-inf" are floats, uuid text is an identifier, *.geoh5 is a workspace path);
# the second group must survive unchanged.
NUMLIKE = ["1", "1.0", "-0", "1e5", "true", "false", "null", "None", "NaN", "nan", "Infinity", "-Infinity",
           "infinity", "Inf", "INF", " inf", "inf ", "+inf", "[1, 2]", "{}", "1,2,3", "a;b", " ", "\t", "\\", "\"",
           "∞", "geoh5", ".geoh5x", "x.geoh5.bak", "{", "{not-a-uuid}", "0" * 31]


def plain_text():
    return st.text(alphabet=st.characters(blacklist_categories=("Cs",)), min_size=1, max_size=12)


def string_values():
    """-> {"s": kind, ...} resolved at execution (some need the workspace catalog)."""
    return st.one_of(
        st.builds(lambda s: {"s": "text", "v": s}, plain_text()),
        st.builds(lambda s: {"s": "text", "v": s}, plain_text()),
        st.builds(lambda s: {"s": "text", "v": s}, st.sampled_from(["abc", "Option A", "data", "x y z"])),
        st.builds(lambda s: {"s": "numlike", "v": s}, st.sampled_from(NUMLIKE)),
        st.builds(lambda s: {"s": "numlike", "v": s}, st.sampled_from(NUMLIKE)),
        st.builds(lambda s: {"s": "inf", "v": s}, st.sampled_from(["inf", "-inf"])),
        st.builds(lambda r, form: {"s": "uuid-known", "ref": r, "form": form}, st.integers(0, 50),
                  st.sampled_from(["plain", "brace", "upper", "hex", "urn"])),
        st.builds(lambda: {"s": "geoh5-real"}),
        st.builds(lambda: {"s": "geoh5-missing"}),
    )


def classify_string(text: str) -> str:
    """Reference classification of a string by the documented conversions (no library call)."""
    if text == "":
        return "empty"
    if text in ("inf", "-inf"):
        return "inf"
    try:
        _uuid.UUID(text)
        return "uuid"
    except (ValueError, AttributeError, TypeError):
        pass
    if Path(text).suffix == ".geoh5":
        return "geoh5"
    return "str"


def safe_text(text: str) -> str:
    """Keep generated free text out of the converted classes (those are generated on purpose)."""
    if classify_string(text) != "str":
        return text + "_"
    return text


def uid_text(uid, form: str) -> str:
    text = str(uid)
    if form == "brace":
        return "{" + text + "}"
    if form == "upper":
        return text.upper()
    if form == "hex":
        return uid.hex
    if form == "urn":
        return "urn:uuid:" + text
    return text


# =============================================================================== canonical views
def snap(value):
    """Comparable, JSON-able view of a data value: entities by uid + class, workspaces by resolved
    path, floats exactly (hex), no coercion between kinds."""
    from geoh5py.groups import PropertyGroup
    from geoh5py.shared import Entity
    from geoh5py.workspace import Workspace

    if value is None:
        return ["none"]
    if isinstance(value, bool):
        return ["bool", value]
    if isinstance(value, int):
        return ["int", str(value)]
    if isinstance(value, float):
        return ["float", float(value).hex()]
    if isinstance(value, str):
        return ["str", value]
    if isinstance(value, _uuid.UUID):
        return ["uuid", str(value)]
    if isinstance(value, (Entity, PropertyGroup)):
        return ["entity", str(value.uid), type(value).__name__]
    if isinstance(value, Workspace):
        h5file = value.h5file
        return ["workspace", os.path.realpath(str(h5file)) if isinstance(h5file, (str, Path)) else "<memory>"]
    if isinstance(value, Path):
        return ["path", str(value)]
    if isinstance(value, (list, tuple)):
        return ["list", [snap(v) for v in value]]
    if isinstance(value, dict):
        return ["dict", {str(k): snap(v) for k, v in value.items()}]
    return ["other", type(value).__name__, repr(value)[:80]]


def snap_kind(snapped) -> str:
    if snapped[0] == "list":
        inner = sorted({snap_kind(v) for v in snapped[1]})
        return "list[" + ",".join(inner) + "]"
    if snapped[0] == "entity":
        return "entity"
    return snapped[0]


def where_raised(exc: BaseException) -> str:
    """`ExcClass@function` of the deepest geoh5py frame: stable signature component."""
    frames = traceback.extract_tb(exc.__traceback__)
    fn = "?"
    for frame in frames:
        if "geoh5py" in frame.filename:
            fn = frame.name
    return f"{type(exc).__name__}@{fn}"


def strict_json_loads(text: str):
    """RFC 8259 reader: the stdlib parser with the NaN / Infinity extension turned into an error."""

    def refuse(token):
        raise ValueError(f"non-standard JSON token {token}")

    return json.loads(text, parse_constant=refuse)


# =============================================================================== reference rules
def docs_requires_value(form: dict, forms: dict) -> bool | None:
    """Is a value required (None NOT allowed) for `form` inside the ui.json `forms`?

    Written from docs/content/uijson_format/params.rst and the docstrings of `requires_value` /
    `dependency_requires_value`:
      * top: a group whose groupOptional checkbox is unchecked disables all its parameters -> not required;
      * then the dependency: if the driving parameter (its `enabled` when it is optional, else its bool
        `value`) does not activate this parameter (dependencyType enabled/disabled) -> not required;
        if it does, an optional parameter is required iff it is enabled, any other parameter is required;
      * bottom: an optional parameter is required iff it is enabled (default true); a plain one is required.
    Returns None where the documentation leaves the combination open (see `unspecified_reason`).
    """
    if unspecified_reason(form, forms):
        return None
    group = form.get("group")
    if group:
        owners = [f for f in forms.values() if isinstance(f, dict) and f.get("group") == group
                  and "groupOptional" in f]
        if owners and owners[0].get("groupOptional") is True and owners[0].get("enabled", True) is False:
            return False
    if "dependency" in form:
        driver = forms[form["dependency"]]
        state = driver.get("enabled", True) if driver.get("optional", False) else driver.get("value")
        active = bool(state) if form.get("dependencyType", "enabled") == "enabled" else not bool(state)
        if not active:
            return False
        if form.get("optional", False):
            return bool(form.get("enabled", True))
        return True
    if form.get("optional", False):
        return bool(form.get("enabled", True))
    return True


def unspecified_reason(form: dict, forms: dict) -> str | None:
    """Combinations of switches whose meaning the documentation does not fix."""
    optional = form.get("optional", False)
    enabled = form.get("enabled", True)
    group = form.get("group")
    group_off = False
    if group:
        owners = [f for f in forms.values() if isinstance(f, dict) and f.get("group") == group
                  and "groupOptional" in f]
        if len(owners) > 1:
            return "two-group-owners"
        if owners and owners[0].get("groupOptional") is True and owners[0].get("enabled", True) is False:
            group_off = True
    dep_off = False
    if "dependency" in form:
        driver = forms.get(form["dependency"])
        if not isinstance(driver, dict):
            return "dependency-on-non-form"
        if driver.get("optional", False):
            state = driver.get("enabled", True)
        else:
            state = driver.get("value")
            if not isinstance(state, bool):
                return "dependency-on-non-bool-non-optional"
        active = bool(state) if form.get("dependencyType", "enabled") == "enabled" else not bool(state)
        dep_off = not active
    if group_off or dep_off:
        return None  # disabled from above: not required, whatever the lower switches say
    if enabled is False and optional is not True:
        # "enabled: false" on a parameter that has no checkbox of its own and whose group /
        # dependency (if any) leaves it active: params.rst only defines `enabled` for optional parameters
        return "disabled-without-a-switch"
    return None


# =============================================================================== form generation (C14)
FORM_KINDS = ["bool", "integer", "float", "string", "choice", "multichoice", "file", "group", "object",
              "multiobject", "data", "datagroup", "datavalue", "dhdata", "range"]
ENTITY_KINDS = {"group", "object", "multiobject", "data", "datagroup", "datavalue", "range"}
NEED_PARENT = {"data", "datagroup", "datavalue", "range"}
UID_FORMS = ["str", "uuid", "brace", "upper", "entity"]


def switch_strategy():
    return st.fixed_dictionaries({
        "opt": st.sampled_from([None, None, "enabled", "disabled", "disabled"]),
        "grp": st.sampled_from([None, None, None, 0, 0, 1]),
        "gopt": st.sampled_from([None, None, True, True, False]),
        "dep": st.one_of(st.none(), st.none(), st.integers(0, 20)),
        "dtype": st.sampled_from([None, "enabled", "disabled"]),
        "raw": st.one_of(st.none(), st.none(), st.none(), st.none(), st.none(), st.none(),
                         st.fixed_dictionaries({"optional": st.sampled_from(["absent", True, False]),
                                                "enabled": st.sampled_from(["absent", True, False])})),
        "consistent": st.sampled_from([True] * 9 + [False]),
        "keep": st.booleans(),  # a disabled parameter keeps a real stored value (True) or an empty one
    })


def form_strategy(kinds=None):
    kinds = kinds or FORM_KINDS
    common = {
        "sw": switch_strategy(),
        "label": plain_text(),
        "main": st.sampled_from([True, True, False, None]),
        "tooltip": st.one_of(st.none(), plain_text()),
        "ref": st.integers(0, 50),
        "ref2": st.integers(0, 50),
        "parent": st.integers(0, 10),
        "uidform": st.sampled_from(UID_FORMS),
    }

    def of(kind, **extra):
        return st.fixed_dictionaries({"kind": st.just(kind), **common, **extra})

    table = {
        "bool": of("bool", v=st.booleans()),
        "integer": of("integer", v=int_values(), vmin=st.one_of(st.none(), int_values()),
                      vmax=st.one_of(st.none(), int_values())),
        "float": of("float", v=float_values(), vmin=st.one_of(st.none(), float_values()),
                    vmax=st.one_of(st.none(), float_values()), precision=st.integers(0, 12),
                    line_edit=st.booleans()),
        "string": of("string", v=string_values()),
        "choice": of("choice", choices=st.lists(plain_text(), min_size=1, max_size=4, unique=True),
                     pick=st.integers(0, 10)),
        "multichoice": of("multichoice", choices=st.lists(plain_text(), min_size=1, max_size=4, unique=True),
                          picks=st.lists(st.integers(0, 10), min_size=0, max_size=4)),
        "file": of("file", paths=st.lists(st.sampled_from(["a.txt", "/tmp/b c.dat", "dir/ü.csv", "model.con",
                                                           "x.GEOH5", "real.geoh5"]),
                                          min_size=1, max_size=3)),
        "group": of("group", dh=st.booleans()),
        "object": of("object"),
        "multiobject": of("multiobject", refs=st.lists(st.integers(0, 50), min_size=0, max_size=3)),
        "data": of("data", assoc=st.sampled_from(["Vertex", "Cell"])),
        "datagroup": of("datagroup"),
        "datavalue": of("datavalue", is_value=st.booleans(), v=st.one_of(float_values(), int_values()),
                        prop_none=st.booleans()),
        "dhdata": of("dhdata", names=st.lists(st.sampled_from(["au", "cu", "zn"]), min_size=1, max_size=3),
                     multiselect=st.booleans()),
        "range": of("range", lo=st.one_of(float_values(), int_values()), hi=st.one_of(float_values(), int_values()),
                    complement=st.booleans()),
    }
    return st.one_of(*[table[k] for k in kinds])


def toplevel_strategy():
    """Plain (non-form) ui.json entries: the standard header members and free extras."""
    value = st.one_of(st.none(), st.booleans(), int_values(), float_values(),
                      plain_text().map(lambda s: {"s": "text", "v": s}),
                      st.sampled_from(NUMLIKE).map(lambda s: {"s": "numlike", "v": s}),
                      st.lists(st.one_of(int_values(), float_values()), max_size=3).map(lambda v: {"l": v}))
    return st.fixed_dictionaries({
        "title": plain_text(),
        "run_command": st.one_of(st.none(), plain_text()),
        "conda_environment": st.one_of(st.none(), plain_text()),
        "conda_environment_boolean": st.booleans(),
        "monitoring_directory": st.sampled_from([None, "scratch", "text"]),
        "workspace": st.sampled_from([None, None, "path"]),
        "run_bool": st.booleans(),
        "extras": st.lists(value, max_size=3),
    })


def roundtrip_program_strategy(tier: str):
    max_forms = 10
    return st.fixed_dictionaries({
        "ws": ws_spec_strategy(),
        "geoh5": st.sampled_from(["path", "path", "pathobj", "open_rw", "open_rw", "open_r"]),
        "top": toplevel_strategy(),
        "forms": st.one_of(st.lists(form_strategy(), min_size=1, max_size=2),
                           st.lists(form_strategy(), min_size=3, max_size=max_forms),
                           st.lists(form_strategy(), min_size=4, max_size=max_forms),
                           st.lists(form_strategy(), min_size=6, max_size=max_forms)),
        "ident": st.lists(st.fixed_dictionaries({"ref": st.integers(0, 50), "shape": st.sampled_from(
            ["one", "one", "list", "nested", "plain"]), "kind": st.sampled_from(["obj", "data", "pg", "group", "dhg"])}),
            min_size=1, max_size=5),
        "allow_known": st.sampled_from([False] * 9 + [True]),
    })


# ------------------------------------------------------------------------------- materialisation
class Built:
    """A ui.json dictionary plus what the reference expects of every parameter."""

    def __init__(self):
        self.ui_json: dict = {}
        self.meta: dict = {}   # name -> {kind, expected (snap|None), lookalike, unspecified, vclass, entity}
        self.excluded = 0      # triggers of known findings neutralised
        self.known: dict = {}  # name -> tag of the known finding whose trigger is present (allow_known)


def pick_entity(cat, kind, ref, obj_index=None):
    """-> (uid, class name) of an entity of the catalog, by index modulo."""
    if kind == "obj":
        entry = cat["objs"][ref % len(cat["objs"])]
        return entry["uid"], entry["cls"]
    if kind == "group":
        entry = cat["groups"][ref % len(cat["groups"])]
        return entry["uid"], entry["cls"]
    if kind == "dhg":
        entry = cat["dhg"] or cat["groups"][ref % len(cat["groups"])]
        return entry["uid"], entry["cls"]
    obj = cat["objs"][(obj_index if obj_index is not None else ref) % len(cat["objs"])]
    if kind == "pg":
        if obj["pgs"]:
            entry = obj["pgs"][ref % len(obj["pgs"])]
            return entry["uid"], entry["cls"]
        kind = "data"
    entry = obj["data"][ref % len(obj["data"])]
    return entry["uid"], entry["cls"]


def present_uid(uid, how: str, ws):
    """The same identifier in one of the accepted spellings."""
    if how == "uuid":
        return uid
    if how == "brace":
        return "{" + str(uid) + "}"
    if how == "upper":
        return str(uid).upper()
    if how == "entity" and ws is not None and getattr(ws, "_geoh5", None):
        found = ws.get_entity(uid)[0]
        if found is None:
            for obj in ws.objects:
                for group in obj.property_groups or []:
                    if group.uid == uid:
                        return group
        if found is not None:
            return found
    return str(uid)


def materialize(program: dict, cat: dict, ws, geoh5_value) -> Built:
    """Program -> ui.json dictionary (built through `templates.*`) + reference expectations."""
    from geoh5py.ui_json import templates
    from geoh5py.ui_json.constants import default_ui_json
    from copy import deepcopy

    allow_known = bool(program.get("allow_known"))
    built = Built()
    uj = deepcopy(default_ui_json)
    uj["geoh5"] = geoh5_value
    top = program.get("top") or {}
    scratch = str(env.scratch_dir())

    # ---- header / plain entries
    uj["title"] = safe_text(top.get("title") or "Custom UI")
    for key in ("run_command", "conda_environment"):
        if top.get(key) is not None:
            uj[key] = safe_text(top[key])
    uj["conda_environment_boolean"] = bool(top.get("conda_environment_boolean", False))
    uj["run_command_boolean"]["value"] = bool(top.get("run_bool", False))
    if top.get("monitoring_directory") == "scratch":
        uj["monitoring_directory"] = scratch
    elif top.get("monitoring_directory") == "text":
        uj["monitoring_directory"] = "some/dir"
    if top.get("workspace") == "path":
        uj["workspace"] = cat["path"]
    for key in ("title", "run_command", "conda_environment", "conda_environment_boolean",
                "monitoring_directory"):
        built.meta[key] = {"kind": "plain", "expected": snap(uj[key]), "lookalike": False, "unspecified": False,
                           "vclass": "header", "entity": False}
    built.meta["run_command_boolean"] = {"kind": "bool", "expected": snap(uj["run_command_boolean"]["value"]),
                                         "lookalike": False, "unspecified": False, "vclass": "header",
                                         "entity": False}
    built.meta["workspace"] = {"kind": "plain", "lookalike": uj["workspace"] is not None, "unspecified": False,
                               "vclass": "workspace-path" if uj["workspace"] else "header", "entity": False,
                               "expected": ["workspace", os.path.realpath(cat["path"])] if uj["workspace"]
                               else ["none"]}
    built.meta["geoh5"] = {"kind": "plain", "lookalike": True, "unspecified": False, "vclass": "workspace-path",
                           "entity": False, "expected": ["workspace", os.path.realpath(cat["path"])]}
    for i, extra in enumerate(top.get("extras") or []):
        name = f"extra{i}"
        if isinstance(extra, dict) and "s" in extra:
            value = safe_text(extra["v"]) if extra["s"] == "text" else extra["v"]
            vclass = "plain-" + extra["s"]
        elif isinstance(extra, dict) and "l" in extra:
            value = dec(extra["l"])
            vclass = "plain-list"
        else:
            value = dec(extra)
            vclass = "plain-" + type(value).__name__
        uj[name] = value
        built.meta[name] = {"kind": "plain", "expected": snap(value), "lookalike": False, "unspecified": False,
                            "vclass": vclass, "entity": False}

    # ---- forms
    specs = list(program.get("forms") or [])
    names = [f"p{i}" for i in range(len(specs))]
    object_forms = [i for i, s in enumerate(specs) if s["kind"] == "object"]
    need_parent = any(s["kind"] in NEED_PARENT for s in specs)
    implicit_parent = None
    if need_parent and not object_forms:
        implicit_parent = "pobj"
        uid, cls = pick_entity(cat, "obj", specs[0].get("ref", 0))
        uj[implicit_parent] = templates.object_parameter(value=str(uid), label="parent object")
        built.meta[implicit_parent] = {"kind": "object", "expected": ["entity", str(uid), cls], "lookalike": False,
                                       "unspecified": False, "vclass": "entity", "entity": True}
    obj_index_of = {}
    for i in object_forms:
        obj_index_of[i] = specs[i].get("ref", 0) % len(cat["objs"])

    forms: dict = {}
    for i, spec in enumerate(specs):
        name = names[i]
        kind = spec["kind"]
        label = safe_text(spec.get("label") or kind)
        main = spec.get("main")
        how = spec.get("uidform", "str")
        lookalike = False
        vclass = kind
        expected = None
        entity = False
        parent_name = ""
        parent_obj = None
        if kind in NEED_PARENT:
            if object_forms:
                parent_i = object_forms[spec.get("parent", 0) % len(object_forms)]
                parent_name = names[parent_i]
                parent_obj = obj_index_of[parent_i]
            else:
                parent_name = implicit_parent
                parent_obj = specs[0].get("ref", 0) % len(cat["objs"])
        ref = spec.get("ref", 0)

        if kind == "bool":
            form = templates.bool_parameter(label=label, value=bool(spec["v"]))
            expected = snap(bool(spec["v"]))
        elif kind == "integer":
            value = dec(spec["v"])
            form = templates.integer_parameter(label=label, value=value, vmin=dec(spec.get("vmin")),
                                               vmax=dec(spec.get("vmax")))
            expected = snap(value)
            vclass = "integer:" + ("big" if abs(value) >= 2 ** 53 else "small")
        elif kind == "float":
            value = dec(spec["v"])
            form = templates.float_parameter(label=label, value=value, vmin=dec(spec.get("vmin")),
                                             vmax=dec(spec.get("vmax")), precision=spec.get("precision", 2),
                                             line_edit=spec.get("line_edit", True))
            expected = snap(value)
            vclass = "float:" + ("inf" if np.isinf(value) else "subnormal" if value != 0 and abs(value) < 2.3e-308
                                 else "finite")
        elif kind == "string":
            sval = spec["v"]
            skind = sval["s"]
            if skind == "text":
                value = safe_text(sval["v"])
                expected = snap(value)
                vclass = "string:text" if value.isascii() else "string:unicode"
            elif skind == "numlike":
                value = sval["v"]
                if classify_string(value) != "str":
                    value = value + "_"
                expected = snap(value)
                vclass = "string:numlike"
            elif skind == "inf":
                value = sval["v"]
                lookalike, vclass = True, "string:inf"
            elif skind == "uuid-known":
                kinds = ["obj", "data", "group"]
                uid, _cls = pick_entity(cat, kinds[sval["ref"] % 3], sval["ref"])
                value = uid_text(uid, sval.get("form", "plain"))
                lookalike, vclass = True, "string:uuid-text"
                entity = True
            elif skind == "geoh5-real":
                value = cat["path"]
                lookalike, vclass = True, "string:geoh5-path"
            else:
                value = os.path.join(scratch, "missing.geoh5")
                lookalike, vclass = True, "string:geoh5-missing"
            form = templates.string_parameter(label=label, value=value)
        elif kind == "choice":
            choices = [safe_text(c) for c in spec["choices"]]
            choices = list(dict.fromkeys(choices))
            value = choices[spec.get("pick", 0) % len(choices)]
            form = templates.choice_string_parameter(choice_list=choices, label=label, value=value)
            expected = snap(value)
        elif kind == "multichoice":
            choices = [safe_text(c) for c in spec["choices"]]
            choices = list(dict.fromkeys(choices))
            value = [choices[p % len(choices)] for p in spec.get("picks", [])]
            form = templates.choice_string_parameter(choice_list=choices, label=label, value=value,
                                                     multi_select=True)
            expected = snap(value)
            vclass = f"multichoice:{min(len(value), 2)}"
        elif kind == "file":
            paths = [cat["path"] if p == "real.geoh5" else p for p in spec["paths"]]
            value = ";".join(paths)
            if classify_string(value) == "geoh5":
                lookalike, vclass = True, "file:geoh5-path"
            else:
                expected = snap(value)
            exts = tuple(dict.fromkeys(Path(p).suffix[1:] or "txt" for p in paths))
            form = templates.file_parameter(label=label, value=value, file_type=exts,
                                            file_description=tuple(f"{e} file" for e in exts))
        elif kind == "group":
            uid, cls = pick_entity(cat, "dhg" if spec.get("dh") else "group", ref)
            form = templates.group_parameter(label=label, value=present_uid(uid, how, ws))
            expected = ["entity", str(uid), cls]
            entity = True
            vclass = "group:" + cls
        elif kind == "object":
            uid, cls = pick_entity(cat, "obj", ref)
            form = templates.object_parameter(label=label, value=present_uid(uid, how, ws))
            expected = ["entity", str(uid), cls]
            entity = True
        elif kind == "multiobject":
            picked = [pick_entity(cat, "obj", r) for r in spec.get("refs", [])]
            form = templates.object_parameter(label=label, multi_select=True,
                                              value=[present_uid(u, how, ws) for u, _ in picked])
            expected = ["list", [["entity", str(u), c] for u, c in picked]]
            entity = bool(picked)
            vclass = f"multiobject:{min(len(picked), 2)}"
        elif kind == "data":
            uid, cls = pick_entity(cat, "data", ref, parent_obj)
            dkind = next(d["kind"] for d in cat["objs"][parent_obj]["data"] if d["uid"] == uid)
            form = templates.data_parameter(label=label, parent=parent_name, value=present_uid(uid, how, ws),
                                            association=spec.get("assoc", "Vertex"),
                                            data_type=DATA_TYPE_NAME[dkind])
            expected = ["entity", str(uid), cls]
            entity = True
        elif kind == "datagroup":
            obj = cat["objs"][parent_obj]
            if obj["pgs"]:
                entry = obj["pgs"][ref % len(obj["pgs"])]
                form = templates.data_parameter(label=label, parent=parent_name,
                                                value=present_uid(entry["uid"], how, ws),
                                                data_group_type=entry["type"])
                expected = ["entity", str(entry["uid"]), entry["cls"]]
                vclass = "datagroup:" + entry["type"]
            else:
                uid, cls = pick_entity(cat, "data", ref, parent_obj)
                form = templates.data_parameter(label=label, parent=parent_name, value=present_uid(uid, how, ws))
                expected = ["entity", str(uid), cls]
                vclass = "data"
            entity = True
        elif kind == "datavalue":
            uid, cls = pick_entity(cat, "data", ref, parent_obj)
            value = dec(spec["v"])
            is_value = bool(spec.get("is_value", True))
            prop = None if (is_value and spec.get("prop_none")) else uid
            if prop is not None and how in ("str", "brace", "upper"):
                prop = present_uid(uid, how, None)
            form = templates.data_value_parameter(label=label, parent=parent_name, value=value, is_value=is_value,
                                                  prop=prop)
            if is_value:
                expected = snap(value)
                vclass = "datavalue:value"
            else:
                expected = ["entity", str(uid), cls]
                entity = True
                vclass = "datavalue:property"
        elif kind == "dhdata":
            uid, _cls = pick_entity(cat, "dhg", ref)
            value = list(spec.get("names") or ["au"])
            form = templates.drillhole_group_data(value=value, label=label, group_value=uid,
                                                  multiselect=bool(spec.get("multiselect", True)))
            # KNOWN FINDING guard (C14/read-raises/.../dhdata-optional-none): the template stores
            # "optional": None, which is written as "" and refused by the reader.
            if form.get("optional", 0) is None:
                if allow_known:
                    built.known[name] = "dhdata-optional-none"
                else:
                    del form["optional"]
                    built.excluded += 1
            expected = snap(value)
        elif kind == "range":
            uid, _cls = pick_entity(cat, "data", ref, parent_obj)
            value = [dec(spec["lo"]), dec(spec["hi"])]
            form = templates.range_label_template(label=label, value=value, parent=parent_name, property_=uid,
                                                  is_complement=bool(spec.get("complement")))
            del form["enabled"]  # the switch block below decides about `enabled`
            expected = snap(value)
            vclass = "range:" + ("inf" if any(isinstance(v, float) and np.isinf(v) for v in value) else "finite")
        else:  # pragma: no cover
            raise ValueError(kind)

        if main is None:
            form.pop("main", None)
        else:
            form["main"] = bool(main)
        if spec.get("tooltip") is not None:
            form["tooltip"] = safe_text(spec["tooltip"])
        forms[name] = form
        built.meta[name] = {"kind": kind, "expected": expected, "lookalike": lookalike, "unspecified": False,
                            "vclass": vclass, "entity": entity}

    apply_switches(specs, names, forms, built, allow_known)
    for name in names:
        uj[name] = forms[name]
    built.ui_json = uj
    return built


def apply_switches(specs, names, forms, built, allow_known):
    """optional / enabled / group / groupOptional / dependency / dependencyType members."""
    from geoh5py.ui_json import templates

    n = len(specs)
    # own switch
    for i, spec in enumerate(specs):
        sw = spec.get("sw") or {}
        form = forms[names[i]]
        raw = sw.get("raw")
        if raw:
            for key in ("optional", "enabled"):
                if raw[key] != "absent":
                    form[key] = raw[key]
                else:
                    form.pop(key, None)
        elif sw.get("opt"):
            form.update(templates.optional_parameter(sw["opt"]))
        if sw.get("grp") is not None:
            form["group"] = f"Group {sw['grp']}"
    # one owner per group
    owners = {}
    for i, spec in enumerate(specs):
        sw = spec.get("sw") or {}
        form = forms[names[i]]
        if "group" in form and sw.get("gopt") is not None and form["group"] not in owners:
            owners[form["group"]] = names[i]
            form["groupOptional"] = bool(sw["gopt"])
    # dependencies on boolean or optional parameters (the documented drivers)
    for i, spec in enumerate(specs):
        sw = spec.get("sw") or {}
        if sw.get("dep") is None:
            continue
        drivers = [j for j in range(n) if j != i and (specs[j]["kind"] == "bool" or forms[names[j]].get("optional"))]
        if not drivers:
            continue
        driver = drivers[sw["dep"] % len(drivers)]
        forms[names[i]]["dependency"] = names[driver]
        if sw.get("dtype") is not None:
            forms[names[i]]["dependencyType"] = sw["dtype"]
    # `enabled` as Geoscience ANALYST exports it: false for everything greyed out from above
    def greyed_by(form):
        group_off = False
        if "group" in form and form["group"] in owners:
            owner = forms[owners[form["group"]]]
            group_off = owner.get("groupOptional") is True and owner.get("enabled", True) is False \
                and owner is not form
        dep_off = False
        if "dependency" in form:
            driver = forms[form["dependency"]]
            state = driver.get("enabled", True) if driver.get("optional", False) else driver.get("value")
            active = bool(state) if form.get("dependencyType", "enabled") == "enabled" else not bool(state)
            dep_off = not active
        return group_off or dep_off

    for _ in range(n + 2):  # fixpoint: greying propagates along dependencies and groups
        changed = False
        for i, spec in enumerate(specs):
            sw = spec.get("sw") or {}
            form = forms[names[i]]
            if greyed_by(form) and sw.get("consistent", True) and form.get("enabled", True) is not False:
                form["enabled"] = False
                changed = True
        if not changed:
            break

    # KNOWN FINDING guard (group-owner-propagation): `set_enabled` copies the `enabled` member of the form
    # that carries `groupOptional` (whatever its value) onto every member of the group.  It shows when the
    # owner has an `enabled` member that differs from a member's and the documentation does not ask for it
    # (owner enabled, or no group checkbox at all).  Neutralised by moving that member out of the group.
    for group, owner_name in owners.items():
        owner = forms[owner_name]
        if "enabled" not in owner or owner["enabled"] is None:
            continue
        for i, name in enumerate(names):
            form = forms[name]
            if form is owner or form.get("group") != group:
                continue
            if form.get("enabled", True) != owner["enabled"] and (
                    owner["enabled"] is True or owner.get("groupOptional") is not True):
                if allow_known:
                    for member in names:
                        if forms[member].get("group") == group:
                            built.known[member] = "group-owner-propagation"
                else:
                    del form["group"]
                    built.excluded += 1

    for i, spec in enumerate(specs):
        form = forms[names[i]]
        meta = built.meta[names[i]]
        greyed = greyed_by(form)
        if greyed and form.get("enabled", True) is not False:
            meta["unspecified"] = True  # enabled although its group / dependency disables it
        own_checkbox = form.get("optional", False) is True or form.get("groupOptional") is True
        if form.get("enabled", True) is False and not own_checkbox and not greyed:
            meta["unspecified"] = True  # disabled without any switch that could disable it
    # stored value of a disabled parameter: either kept or emptied (both are what files contain)
    for i, spec in enumerate(specs):
        sw = spec.get("sw") or {}
        form = forms[names[i]]
        meta = built.meta[names[i]]
        if form.get("enabled", True) is False:
            if not sw.get("keep", True) and "isValue" not in form:
                form["value"] = None
            meta["expected_enabled"] = False
            meta["value_expected"] = meta["expected"]
            meta["expected"] = ["none"]
        else:
            meta["expected_enabled"] = True


# =============================================================================== C14 interpreter
def run_roundtrip(program: dict, res, pid: str = "C14"):
    """Build workspace + ui.json, InputFile -> write -> read, evaluate the five clauses."""
    from geoh5py.ui_json import InputFile
    from geoh5py.workspace import Workspace

    stats = {"constructed": False, "roundtrip": False, "forms": 0, "entity_forms": 0, "disabled_forms": 0,
             "kinds": set()}
    ws = None
    opened = None
    extra_open = []
    try:
        ws, cat = build_workspace(program.get("ws") or DEFAULT_WS)
        ws.close()
        mode = program.get("geoh5", "path")
        if mode == "open_rw":
            opened = Workspace(cat["path"], mode="r+")
            geoh5_value = opened
        elif mode == "open_r":
            opened = Workspace(cat["path"], mode="r")
            geoh5_value = opened
        elif mode == "pathobj":
            geoh5_value = Path(cat["path"])
        else:
            geoh5_value = cat["path"]
        built = materialize(program, cat, opened, geoh5_value)
        if built.excluded:
            res.count("excluded_by_finding", built.excluded)
        form_names = [k for k, m in built.meta.items() if k.startswith("p") and k[1:].isdigit()]
        stats["forms"] = len(form_names)
        for name in form_names:
            meta = built.meta[name]
            stats["kinds"].add(meta["kind"])
            res.label("form:" + meta["kind"])
            res.label("value:" + meta["vclass"])
            form = built.ui_json[name]
            for member in ("optional", "group", "groupOptional", "dependency", "dependencyType", "multiSelect",
                           "isValue"):
                if member in form:
                    res.label("member:" + member)
            if meta["expected_enabled"] is False:
                stats["disabled_forms"] += 1
            if meta["entity"] and meta["expected_enabled"]:
                stats["entity_forms"] += 1
            if meta["lookalike"]:
                res.count("lookalike_values")
            if meta["unspecified"]:
                res.count("unspecified_forms")
        res.label("geoh5:" + mode)

        # ---- construct
        try:
            ifile = InputFile(ui_json=built.ui_json)
            data0 = ifile.data
        except Exception as exc:  # rejected at construction: nothing to round-trip
            res.label("construct-rejected:" + type(exc).__name__)
            res.info["construct_error"] = f"{where_raised(exc)}: {str(exc)[:200]}"
            clean = not any(m["lookalike"] or m["unspecified"] for m in built.meta.values()
                            if m.get("kind") != "plain") and not any(
                (s.get("sw") or {}).get("raw") for s in program.get("forms") or [])
            if clean:
                res.label("construct-rejected-clean:" + where_raised(exc))
                res.info["construct_error"] = f"{where_raised(exc)}: {str(exc)[:200]}"
            return stats
        stats["constructed"] = True
        snap0 = {k: snap(v) for k, v in data0.items()}

        # ---- clause 4: promote / demote on identifier-valued dictionaries
        check_promote_demote(program, cat, ifile, res, pid)

        # ---- write
        out_dir = env.new_dir("uj")
        try:
            out = ifile.write_ui_json(name="case.ui.json", path=str(out_dir))
        except Exception as exc:
            res.fail(f"{pid}/write-raises/{where_raised(exc)}", f"write_ui_json raised {type(exc).__name__}: "
                                                                f"{str(exc)[:300]}")
            return stats
        snap_mem = {k: snap(v) for k, v in (ifile.data or {}).items()}
        enabled_mem = {k: f.get("enabled", True) for k, f in ifile.ui_json.items() if isinstance(f, dict)}
        if opened is not None:
            opened.close()
        text = Path(out).read_text(encoding="utf-8")

        # ---- clause 5: the text is standard JSON
        try:
            strict_json_loads(text)
        except ValueError as exc:
            res.fail(f"{pid}/json-not-standard/{'token' if 'token' in str(exc) else 'syntax'}",
                     f"written file is not standard JSON: {exc}")

        # ---- read
        try:
            back = InputFile.read_ui_json(out)
            data1 = back.data
        except Exception as exc:
            kinds = sorted({built.meta[n]["kind"] for n in form_names})
            culprit, culprit_name = blame_form(exc, built)
            res.fail(tagged(built, culprit_name, f"{pid}/read-raises/{where_raised(exc)}/{culprit}"),
                     f"read_ui_json of the file just written raised {type(exc).__name__}: {str(exc)[:300]} "
                     f"(forms: {kinds})")
            return stats
        stats["roundtrip"] = True
        snap1 = {k: snap(v) for k, v in data1.items()}
        enabled1 = {k: f.get("enabled", True) for k, f in back.ui_json.items() if isinstance(f, dict)}

        # ---- clauses 1-3
        if set(snap1) != set(snap0):
            res.fail(f"{pid}/parameters-differ/keys", f"parameters before {sorted(snap0)} after {sorted(snap1)}")
        if snap_mem != snap0:
            res.count("data_changed_by_write")
        for name, before in snap0.items():
            meta = built.meta.get(name, {"kind": "plain", "vclass": "?", "unspecified": False, "lookalike": False,
                                         "expected": None})
            if meta["unspecified"]:
                continue
            after = snap1.get(name)
            kind = meta["kind"]
            if after != before:
                res.fail(tagged(built, name, f"{pid}/data-differs/{kind}/{snap_kind(before)}->"
                                             f"{snap_kind(after) if after else 'missing'}"
                                             f"/{switch_class(built.ui_json.get(name))}"),
                         f"parameter {name!r} ({meta['vclass']}): data before write {before} != after read {after}")
            if isinstance(built.ui_json.get(name), dict):
                if enabled1.get(name) != enabled_mem.get(name):
                    res.fail(tagged(built, name, f"{pid}/enabled-differs/{enabled_mem.get(name)}->"
                                                 f"{enabled1.get(name)}/{switch_class(built.ui_json.get(name))}"),
                             f"parameter {name!r}: enabled in memory after write {enabled_mem.get(name)} != "
                             f"after read {enabled1.get(name)}")
                if enabled1.get(name) is False and after != ["none"]:
                    res.fail(tagged(built, name, f"{pid}/disabled-not-none/{kind}/read"), f"parameter {name!r} disabled after read but "
                                                                     f"data is {after}")
                if meta.get("expected_enabled") is False and before != ["none"]:
                    res.fail(tagged(built, name, f"{pid}/disabled-not-none/{kind}/constructed/"
                                                 f"{switch_class(built.ui_json.get(name))}"),
                             f"parameter {name!r} generated disabled but data is {before}")
            if not meta["lookalike"] and meta.get("expected") is not None:
                if before != meta["expected"]:
                    res.fail(tagged(built, name, f"{pid}/data-vs-generated/{kind}/{snap_kind(meta['expected'])}->"
                                                 f"{snap_kind(before)}/{switch_class(built.ui_json.get(name))}"),
                             f"parameter {name!r} ({meta['vclass']}): generated {meta['expected']} but data is "
                             f"{before}")
        return stats
    finally:
        env.close_quietly(opened, ws, *extra_open)


def tagged(built, name, sig: str) -> str:
    """Signature of a failing clause on parameter `name`; marks cases that contain the (deliberately
    allowed) trigger of a known finding so that those signatures do not hide anything else."""
    tag = built.known.get(name)
    return f"{sig}/known:{tag}" if tag else sig


def switch_class(form) -> str:
    if not isinstance(form, dict):
        return "plain"
    parts = []
    if "optional" in form:
        parts.append("opt")
    if "group" in form:
        parts.append("gowner" if "groupOptional" in form else "gmember")
    if "dependency" in form:
        parts.append("dep")
    return "+".join(parts) or "bare"


def blame_form(exc, built) -> str:
    import re

    for token in re.findall(r"\b(p\d+|pobj|extra\d+)\b", str(exc)):
        if token in built.meta:
            return built.meta[token]["kind"], token
    return "?", None


def check_promote_demote(program, cat, ifile, res, pid):
    """demote(promote(x)) == x on identifiers; promote(demote(y)) gives the same entities."""
    from copy import deepcopy

    from geoh5py.ui_json import InputFile

    ident = {}
    expect = {}
    for i, item in enumerate(program.get("ident") or []):
        kind = item["kind"]
        if kind == "dhg" and not cat["dhg"]:
            kind = "group"
        uid, cls = pick_entity(cat, kind, item["ref"])
        key = f"k{i}"
        if item["shape"] == "list":
            uid2, cls2 = pick_entity(cat, "obj", item["ref"] + 1)
            ident[key] = [uid, uid2]
            expect[key] = ["list", [["entity", str(uid), cls], ["entity", str(uid2), cls2]]]
        elif item["shape"] == "nested":
            ident[key] = {"label": "nested", "value": uid}
            expect[key] = ["dict", {"label": ["str", "nested"], "value": ["entity", str(uid), cls]}]
        elif item["shape"] == "plain":
            ident[key] = 5
            expect[key] = ["int", "5"]
        else:
            ident[key] = uid
            expect[key] = ["entity", str(uid), cls]
    if not ident:
        return
    workspace = ifile.geoh5
    was_open = bool(getattr(workspace, "_geoh5", None))
    try:
        if not was_open:
            workspace.open(mode="r")
        try:
            promoted = ifile.promote(deepcopy(ident))
            snap_p = {k: snap(v) for k, v in promoted.items()}
            demoted = InputFile.demote(promoted)
            again = ifile.promote(to_identifiers(deepcopy(demoted)))
            snap_again = {k: snap(v) for k, v in again.items()}
        except Exception as exc:
            res.fail(f"{pid}/promote-demote-raises/{where_raised(exc)}", f"{type(exc).__name__}: {str(exc)[:300]}")
            return
        res.count("promote_demote_dicts")
        for key, want in expect.items():
            shape = want[0]
            if snap_p.get(key) != want:
                res.fail(f"{pid}/promote-wrong/{shape}", f"promote({ident[key]!r}) gave {snap_p.get(key)}, "
                                                         f"expected {want}")
            back = snap(to_identifiers(deepcopy(demoted.get(key))))
            if back != snap(ident[key]):
                res.fail(f"{pid}/demote-promote-not-identity/{shape}",
                         f"demote(promote(x)) = {demoted.get(key)!r} for x = {ident[key]!r}")
            if snap_again.get(key) != snap_p.get(key):
                res.fail(f"{pid}/promote-demote-not-identity/{shape}",
                         f"promote(demote(y)) = {snap_again.get(key)} for y = {snap_p.get(key)}")
    finally:
        if not was_open:
            env.close_quietly(workspace)


def to_identifiers(value):
    """Reference reading of demoted identifiers: '{uuid}' text -> UUID (stdlib only)."""
    if isinstance(value, dict):
        return {k: to_identifiers(v) for k, v in value.items()}
    if isinstance(value, list):
        return [to_identifiers(v) for v in value]
    if isinstance(value, str):
        try:
            return _uuid.UUID(value)
        except ValueError:
            return value
    return value
