"""`concat` engine (C04): histories over drillhole groups with concatenated storage (format 2.0 / 2.1).

Reference model: group -> ordered holes -> tables (depth / interval, fixed location arrays) -> data values.
"""
from __future__ import annotations

import gc
import uuid

import numpy as np
from hypothesis import strategies as st

from .. import env
from ..rawsnap import rawsnap

NAME_POOL = ["a", "b", "c", "a/b"]
NAME_KIND = {"a": "float", "b": "int", "c": "text", "a/b": "float", "p1": "float", "p2": "float"}
LENGTHS = [1, 2, 3, 7]
ZERO = "{00000000-0000-0000-0000-000000000000}"
KINDS = ["float", "int", "text"]


def depth_locs(table: int, length: int):
    return np.arange(length, dtype=float) + 0.25 * table


def interval_locs(table: int, length: int):
    start = np.arange(length, dtype=float) * 2.0 + 0.5 * table
    return np.c_[start, start + 0.5 + 0.25 * table]


def make_vals(kind, vals, length):
    vals = (list(vals) + [None, 2, -3, 5, None, 1, 7, 0])[:length]
    if kind == "float":
        arr = np.asarray([np.nan if v is None else v / 4.0 for v in vals], dtype=float)
        exp = ["NaN" if v is None else v / 4.0 for v in vals]
    elif kind == "int":
        arr = np.asarray([0 if v is None else v for v in vals], dtype="int32")
        exp = [0 if v is None else int(v) for v in vals]
    else:
        # (strings of very different lengths: a later value can be longer than anything stored under the name)
        exp = [("" if v is None else f"s{v}" if v % 4 else "t" * (abs(v) + 1)) for v in vals]
        arr = np.asarray(exp, dtype=str)
    return arr, exp


PAD = {"float": "NaN", "int": -2147483648, "text": ""}


def canon(values):
    if values is None:
        return None
    if isinstance(values, str):
        return [values]
    out = []
    for v in np.asarray(values).ravel().tolist():
        if isinstance(v, bytes):
            v = v.decode("utf-8", "replace")
        out.append("NaN" if isinstance(v, float) and v != v else v)
    return out


# =============================================================================== strategy
@st.composite
def program_strategy(draw, max_ops=30, removal_heavy=False):
    idx = st.integers(0, 20)
    vals = st.lists(st.one_of(st.integers(-20, 20), st.none()), min_size=0, max_size=8)
    name = st.sampled_from(NAME_POOL)
    table = st.integers(0, 1)

    def data_op(kind_name):
        return st.fixed_dictionaries({"op": st.just(kind_name), "hole": idx, "table": table, "name": name,
                                      "kind": st.sampled_from(KINDS), "vals": vals, "len": st.sampled_from(LENGTHS),
                                      "short": st.integers(0, 2)})

    weighted = [
        (4, st.fixed_dictionaries({"op": st.just("hole"), "group": idx, "name": st.sampled_from(["h", "H2", "Ωh", "h/x"])})),
        (7, data_op("depth")),
        (6, data_op("interval")),
        (4, st.fixed_dictionaries({"op": st.just("update"), "data": idx, "vals": vals})),
        (2, st.fixed_dictionaries({"op": st.just("rename_hole"), "hole": idx, "name": st.sampled_from(["r1", "Ωr", "r/2"]),
                                   "in_copy": st.booleans()})),
        (2, st.fixed_dictionaries({"op": st.just("rename_data"), "data": idx, "name": name})),
        (4, st.fixed_dictionaries({"op": st.just("remove_data"), "data": idx, "via": st.sampled_from(["ws", "parent"])})),
        (3, st.fixed_dictionaries({"op": st.just("remove_hole"), "hole": idx, "via": st.sampled_from(["ws", "parent"])})),
        (1, st.fixed_dictionaries({"op": st.just("remove_pg"), "pg": idx})),
        (2, st.fixed_dictionaries({"op": st.just("copy_hole"), "hole": idx, "group": idx})),
        (1, st.fixed_dictionaries({"op": st.just("copy_group"), "group": idx, "ws": st.sampled_from([0, 1])})),
        (1, st.fixed_dictionaries({"op": st.just("push"), "group": idx, "pg": idx, "name": st.sampled_from(["p1", "p2"]), "vals": vals})),
        (1, st.fixed_dictionaries({"op": st.just("group"), "name": st.sampled_from(["G0", "G0", "H"])})),
        (2, st.fixed_dictionaries({"op": st.just("meta"), "data": idx, "k": st.integers(0, 9)})),
        (2, st.fixed_dictionaries({"op": st.just("empty_pg"), "hole": idx})),
        (2, st.fixed_dictionaries({"op": st.just("save_hole"), "hole": idx})),
        (2, st.just({"op": "plain"})),
        (2, st.fixed_dictionaries({"op": st.just("plain_remove"), "who": idx})),
        (3, st.fixed_dictionaries({"op": st.just("reopen"), "same": st.sampled_from([False, True]),
                                   "lazy": st.sampled_from([False, False, True])})),
    ]
    if removal_heavy:  # C05: removals of data / holes / tables and refused removals of protected location data
        weighted += [
            (5, st.fixed_dictionaries({"op": st.just("remove_data"), "data": idx, "via": st.sampled_from(["ws", "parent"])})),
            (4, st.fixed_dictionaries({"op": st.just("remove_hole"), "hole": idx, "via": st.sampled_from(["ws", "parent"])})),
            (3, st.fixed_dictionaries({"op": st.just("remove_pg"), "pg": idx})),
            (4, st.fixed_dictionaries({"op": st.just("remove_protected"), "hole": idx, "which": idx})),
        ]
    pool = [s for w, s in weighted for _ in range(w)]
    n_ops = draw(st.integers(1, max_ops))
    ops = [{"op": "hole", "group": 0, "name": "h"}]
    if draw(st.integers(0, 3)) == 0:
        ops.append({"op": "empty_pg", "hole": 0})  # an empty property group that precedes every table of the hole
    if draw(st.integers(0, 3)) > 0:
        ops.append({"op": "hole", "group": 0, "name": "H2"})
        if draw(st.integers(0, 2)) > 0:
            # constructive prefix: the same data name on two holes (what the property is about)
            shared = draw(name)
            first = draw(data_op(draw(st.sampled_from(["depth", "interval"]))))
            second = dict(draw(data_op(first["op"])))
            first, second = {**first, "hole": 0, "name": shared}, {**second, "hole": 1, "name": shared}
            ops += [first, second]
    if draw(st.integers(0, 4)) == 0:
        # constructive prefix: a second group holding a copy of the first hole (the copy shares its data types), then a
        # lazily re-opened session in which one of the two is removed, followed by the removal of an ordinary object
        first = draw(data_op(draw(st.sampled_from(["depth", "interval"]))))
        ops += [{**first, "hole": 0}, {"op": "group", "name": "H"}, {"op": "copy_hole", "hole": 0, "group": 1}, {"op": "plain"},
                {"op": "reopen", "same": draw(st.booleans()), "lazy": True},
                {"op": "remove_hole", "hole": draw(idx), "via": "ws"}, {"op": "plain_remove", "who": 0}]
    for _ in range(n_ops):
        ops.append(draw(draw(st.sampled_from(pool))))
        if ops[-1]["op"] == "reopen" and ops[-1]["lazy"] and draw(st.booleans()):
            # constructive: a data set's metadata is edited in a session that has not read its values
            ops.append({"op": "meta", "data": draw(idx), "k": draw(st.integers(0, 9))})
        elif ops[-1]["op"] == "reopen" and ops[-1]["lazy"] and draw(st.booleans()):
            # constructive: an ordinary object is removed in a session that has not loaded the drillhole data yet
            ops.insert(len(ops) - 1, {"op": "plain"})
            ops[-1] = {**ops[-1], "same": draw(st.sampled_from([True, True, False]))}
            ops.append({"op": "plain_remove", "who": draw(idx)})
    return {"ops": ops, "version": draw(st.sampled_from([2.0, 2.1, 2.1])), "nested": draw(st.integers(0, 2)) == 0,
            "allow_known": draw(st.integers(0, 9)) == 0, "check_every": draw(st.booleans())}


# =============================================================================== model
class MTable:
    def __init__(self, ttype, key, locs):
        self.type, self.key, self.locs = ttype, key, locs
        self.pg_name = None
        self.pg_uid = None
        self.loc_names: list = []
        self.data: dict = {}  # name -> {"kind", "vals" (expected read-back list), "uid"}

    @property
    def length(self):
        return len(self.locs)


class MHole:
    def __init__(self, uid, name):
        self.uid, self.name = uid, name
        self.tables: list = []
        self.extra_pgs: list = []  # uids of property groups without properties ("todo*")

    def table(self, ttype, key):
        for t in self.tables:
            if t.type == ttype and t.key == key:
                return t
        return None

    def names(self):
        out = set()
        for t in self.tables:
            out |= set(t.loc_names) | set(t.data)
        return out


class MGroup:
    def __init__(self, uid, world):
        self.uid, self.world = uid, world
        self.holes: list = []


class ConcatRun:
    def __init__(self, program, res, pid="C04"):
        self.p, self.res, self.pid = program, res, pid
        self.groups: list = []
        self.plain: list = []
        self.touched: set | None = None  # groups the current operation may change (None = unknown)
        self.gone_uids = []
        self.paths: list = []
        self.wss: list = []
        self.stopped = False
        self.lazy = False
        self.step = -1
        self.stats = {"ops": 0, "shared_name_mutation": False, "reopens": 0, "kinds": set()}

    # ---------------------------------------------------------------- helpers
    def fail(self, clause, opkind, label, cond, msg):
        import os, sys, traceback
        if os.environ.get("VP_DEBUG") and sys.exc_info()[0] is not None:
            traceback.print_exc()
        self.res.fail(f"{self.pid}/{clause}/{opkind}/{label}/{cond}", f"step {self.step}: {msg}"[:900])
        self.stopped = True

    def ws(self, world=0):
        return self.wss[world]

    def ent(self, uid, world=0):
        return self.ws(world).get_entity(uuid.UUID(uid))[0]

    def all_holes(self, world=0):
        return [(g, h) for g in self.groups if g.world == world for h in g.holes]

    def all_data(self, world=0):
        return [(g, h, t, n) for g, h in self.all_holes(world) for t in h.tables for n in sorted(t.data)]

    def pick(self, cands, i):
        return cands[i % len(cands)] if cands else None

    # ---------------------------------------------------------------- run
    def execute(self):
        from geoh5py.groups import DrillholeGroup
        from geoh5py.workspace import Workspace

        try:
            self.paths.append(env.new_path("cc"))
            self.wss.append(Workspace.create(self.paths[0], version=self.p.get("version", 2.1)))
            self.box_uid = None
            if self.p.get("nested"):
                # the drillhole groups sit inside an ordinary container group, not directly under the root
                from geoh5py.groups import ContainerGroup

                box = ContainerGroup.create(self.ws(), name="box")
                self.box_uid = box.uid
                grp = DrillholeGroup.create(self.ws(), name="G0", parent=box)
                self.res.label("groups-nested-in-container")
                del box
            else:
                grp = DrillholeGroup.create(self.ws(), name="G0")
            self.groups.append(MGroup(str(grp.uid), 0))
            del grp
            for i, op in enumerate(self.p["ops"]):
                if self.stopped:
                    break
                self.step = i
                handler = getattr(self, "op_" + op["op"])
                self.touched = None
                before = self.group_digests() if self.pid == "C09" and op["op"] != "reopen" else None
                try:
                    done = handler(op)
                except LibError as exc:
                    self.fail("op-raises", op["op"], exc.label, exc.kind + (":after-rename" if self.renamed else ""), exc.detail)
                    break
                if done and before is not None and self.touched is not None and not self.stopped:
                    after = self.group_digests()
                    for guid, digest in before.items():
                        if guid not in self.touched and guid in after and after[guid] != digest:
                            parts = sorted(k for k in digest if digest[k] != after[guid].get(k))
                            self.fail("unrelated-group-changed", op["op"], "DrillholeGroup", ",".join(parts),
                                      f"operation on group(s) {sorted(self.touched)} changed the stored content of group {guid}: {parts}")
                            break
                    self.res.count("untouched_groups_compared", sum(1 for g in before if g not in self.touched))
                if done:
                    self.stats["ops"] += 1
                    self.stats["kinds"].add(op["op"])
                    if op["op"] in ("plain_remove", "reopen") and not (op["op"] == "reopen" and op.get("lazy")):
                        if self.lazy and op["op"] == "plain_remove":
                            self.res.label("plain-removed-before-anything-was-loaded")
                        self.lazy = False
                    if self.p.get("check_every") and op["op"] != "reopen" and not self.lazy:
                        self.check_live(op["op"])
            if not self.stopped:
                self.step = len(self.p["ops"])
                self.do_reopen(final=True)
        finally:
            for ws in self.wss:
                env.close_quietly(ws)
        return self.stats

    def group_digests(self):
        """Decoded stored content of every drillhole group of the first workspace (plain h5py on the open handle)."""
        from ..rawsnap import _concat_digest, snap_node

        out = {}
        h5 = self.ws().geoh5
        groups = h5[list(h5)[0]]["Groups"]
        for grp in self.groups:
            if grp.world != 0:
                continue
            key = "{" + grp.uid + "}"
            if key in groups:
                node = snap_node(groups[key], "Groups")
                digest = _concat_digest(node["concat"]) or {}
                out[grp.uid] = {"attrs": node["attrs"], "datasets": node["datasets"], "index": digest.get("index"),
                                "data": digest.get("data")}
        return out

    def call(self, label, fn, *args, **kwargs):
        try:
            return fn(*args, **kwargs)
        except Exception as exc:
            kind = type(exc).__name__ + (":object-dtype" if "Object dtype" in str(exc) else "")
            raise LibError(label, kind, f"{type(exc).__name__}: {exc}") from None

    # ---------------------------------------------------------------- operations
    def op_group(self, op):
        from geoh5py.groups import DrillholeGroup

        if len([g for g in self.groups if g.world == 0]) >= 2:
            return False
        # groups may share a name (two "Assays" groups under different containers are legitimate)
        kwargs = {"parent": self.ws().get_entity(self.box_uid)[0]} if getattr(self, "box_uid", None) else {}
        grp = self.call("DrillholeGroup", DrillholeGroup.create, self.ws(), name=op.get("name", "G0"), **kwargs)
        self.groups.append(MGroup(str(grp.uid), 0))
        self.touched = {str(grp.uid)}
        return True

    def op_plain(self, op):
        """An ordinary object next to the drillhole groups (its removal purges unused types)."""
        from geoh5py.objects import Points

        if len(self.plain) >= 3:
            return False
        pts = self.call("Points", Points.create, self.ws(), name=f"plain{len(self.plain)}", vertices=np.zeros((2, 3)))
        pts.add_data({"v": {"values": np.asarray([1.0, 2.0])}})
        self.plain.append(str(pts.uid))
        self.touched = set()
        return True

    def op_plain_remove(self, op):
        uid = self.pick(self.plain, op["who"])
        if uid is None:
            return False
        ent = self.ent(uid)
        if ent is None:
            self.fail("plain-object-lost", "plain_remove", "Points", "", f"{uid} not found")
            return True
        self.call("Points", self.ws().remove_entity, ent)
        self.plain.remove(uid)
        self.touched = set()
        del ent
        gc.collect()
        return True

    def op_hole(self, op):
        from geoh5py.objects import Drillhole

        groups = [g for g in self.groups if g.world == 0]
        grp = self.pick(groups, op["group"])
        if len(grp.holes) >= 5:
            return False
        self.touched = {grp.uid}
        parent = self.ent(grp.uid)
        k = len(grp.holes)
        hole = self.call("Drillhole", Drillhole.create, self.ws(), parent=parent, name=op["name"],
                         collar=[float(k), 0.5, 0.0], surveys=np.asarray([[0.0, 0.0, -90.0], [10.0 + k, 45.0, -75.0]]))
        if "Concatenated" not in type(hole).__name__:
            self.fail("not-concatenated", "hole", type(hole).__name__, "", "a drillhole created in a drillhole group is not concatenated")
            return True
        grp.holes.append(MHole(str(hole.uid), op["name"]))
        return True

    def _add(self, op, ttype):
        holes = self.all_holes()
        pick = self.pick(holes, op["hole"])
        if pick is None:
            return False
        grp, hole = pick
        self.touched = {grp.uid}
        name = op["name"]
        if name in hole.names():
            return False  # documented refusal: duplicate data name on a drillhole
        table = hole.table(ttype, op["table"])
        new_table = table is None
        length = op["len"] if new_table else table.length
        locs = (depth_locs if ttype == "depth" else interval_locs)(op["table"], length)
        # one concatenated array per data name and group: a name has one kind (implicit precondition of the format)
        kind = NAME_KIND[name]
        n_given = max(1, length - op.get("short", 0))
        if kind in ("text", "int"):
            # padding of text depends on the spelling of `type`, integer arrays cannot be padded with NaN:
            # both are only offered at the exact table length
            n_given = length
        arr, exp = make_vals(kind, op["vals"], n_given)
        exp = exp + [PAD[kind]] * (length - n_given)
        ent = self.ent(hole.uid)
        spec = {"values": arr, ("depth" if ttype == "depth" else "from-to"): locs.copy()}
        if kind == "text":
            spec["type"] = "TEXT"
        before_pgs = {str(pg.uid) for pg in (ent.property_groups or [])}
        before_names = set(ent.get_data_list())
        self.res.label(f"add:{ttype}:{kind}:{'new' if new_table else 'existing'}-table:len{length}")
        data = self.call(kind, ent.add_data, {name: spec})
        if new_table:
            table = MTable(ttype, op["table"], locs)
            pgs_now = {str(pg.uid): pg for pg in (ent.property_groups or [])}
            created = [u for u in pgs_now if u not in before_pgs]
            pg = data.property_group
            if pg is None:
                self.fail("data-without-table", "add", kind, ttype, f"{name} joined no property group")
                return True
            if str(pg.uid) not in created:
                self.fail("joined-wrong-table", "add", kind, ttype,
                          f"{name} with new {ttype} locations {locs.tolist()} joined the existing group {pg.name!r}")
                return True
            table.pg_name, table.pg_uid = pg.name, str(pg.uid)
            table.loc_names = [n for n in ent.get_data_list() if n not in before_names and n != name]
            hole.tables.append(table)
        else:
            pg = data.property_group
            if pg is None or str(pg.uid) != table.pg_uid:
                self.fail("joined-wrong-table", "add", kind, ttype,
                          f"{name} with the locations of table {table.pg_name!r} joined {getattr(pg, 'name', None)!r}")
                return True
        table.data[name] = {"kind": kind, "vals": exp, "uid": str(data.uid)}
        if any(name in h2.names() for _, h2 in holes if h2 is not hole):
            self.res.label("name-shared-between-holes")
        return True

    def op_depth(self, op):
        return self._add(op, "depth")

    def op_interval(self, op):
        return self._add(op, "interval")

    def op_update(self, op):
        cands = self.all_data()
        pick = self.pick(cands, op["data"])
        if pick is None:
            return False
        grp, hole, table, name = pick
        self.touched = {grp.uid}
        rec = table.data[name]
        arr, exp = make_vals(rec["kind"], op["vals"], table.length)
        data = self.ent(hole.uid).get_data(name)
        if not data:
            self.fail("data-lost", "update", rec["kind"], "", f"{name} of hole {hole.name} not found")
            return True
        self.call(rec["kind"], setattr, data[0], "values", arr)
        rec["vals"] = exp
        self.note_shared(name, hole)
        return True

    def op_save_hole(self, op):
        """An explicit workspace.save_entity(hole) on a hole that is already stored (nothing may change)."""
        pick = self.pick(self.all_holes(), op["hole"])
        if pick is None:
            return False
        grp, hole = pick
        self.touched = {grp.uid}
        self.call("Drillhole", self.ws().save_entity, self.ent(hole.uid))
        self.res.label("save_hole:" + ("several-holes-in-group" if len(grp.holes) > 1 else "single"))
        return True

    def op_empty_pg(self, op):
        """A property group without properties on a hole (legitimate: groups are filled later)."""
        pick = self.pick(self.all_holes(), op["hole"])
        if pick is None:
            return False
        grp, hole = pick
        if hole.extra_pgs:
            return False
        self.touched = {grp.uid}
        ent = self.ent(hole.uid)
        pg = self.call("PropertyGroup", ent.create_property_group, name="todo", property_group_type="Depth table")
        hole.extra_pgs.append(str(pg.uid))
        self.res.label("empty-property-group" + (":before-any-table" if not hole.tables else ""))
        return True

    def op_meta(self, op):
        """A non-value attribute of a concatenated data set is assigned (its values must stay what they were)."""
        pick = self.pick(self.all_data(), op["data"])
        if pick is None:
            return False
        grp, hole, table, name = pick
        self.touched = {grp.uid}
        data = self.ent(hole.uid).get_data(name)
        if not data:
            self.fail("data-lost", "meta", table.data[name]["kind"], "", f"{name} of hole {hole.name} not found")
            return True
        self.call(table.data[name]["kind"], setattr, data[0], "metadata", {"note": int(op["k"])})
        self.res.label("meta" + (":values-not-loaded" if self.lazy else ""))
        return True

    def note_shared(self, name, hole):
        if any(name in h2.names() for _, h2 in self.all_holes() if h2 is not hole):
            self.stats["shared_name_mutation"] = True

    def op_rename_hole(self, op):
        world = 1 if op.get("in_copy") and self.all_holes(1) else 0  # a hole of a group copied to the other workspace
        pick = self.pick(self.all_holes(world), op["hole"])
        if pick is None:
            return False
        grp, hole = pick
        if world:
            self.touched = set()
            self.res.label("rename_hole:in-second-workspace")
        self.call("Drillhole", setattr, self.ent(hole.uid, world), "name", op["name"])
        hole.name = op["name"]
        return True

    def op_rename_data(self, op):
        cands = self.all_data()
        pick = self.pick(cands, op["data"])
        if pick is None:
            return False
        grp, hole, table, name = pick
        self.touched = {grp.uid}
        new = op["name"]
        if new in hole.names():
            if new == name or self.pid != "C04":
                return False
            # a name already used on the hole has to be refused - and the refusal must not cost the data its values
            data = self.ent(hole.uid).get_data(name)
            if not data:
                return False
            try:
                data[0].name = new
            except Exception:
                self.res.label("rename_data:refused-duplicate")
                return True
            self.fail("duplicate-name-accepted", "rename_data", table.data[name]["kind"], "", f"{name} renamed to {new}, a name already used on hole {hole.name}")
            return True
        if NAME_KIND.get(new) != table.data[name]["kind"]:
            return False  # one concatenated array per label: a name has one kind per group (generator precondition)
        if self.pid != "C04":
            return False  # renaming is a C04 operation (open finding there)
        if not self.p.get("allow_known") and GUARDS["rename_data"]:
            self.res.count("excluded_by_finding")
            return False
        data = self.ent(hole.uid).get_data(name)
        if not data:
            self.fail("data-lost", "rename_data", table.data[name]["kind"], "", f"{name} not found")
            return True
        self.call(table.data[name]["kind"], setattr, data[0], "name", new)
        table.data[new] = table.data.pop(name)
        self.res.label("rename_data")
        self.renamed = True
        self.note_shared(name, hole)
        return True

    renamed = False

    def op_remove_data(self, op):
        cands = self.all_data()
        pick = self.pick(cands, op["data"])
        if pick is None:
            return False
        grp, hole, table, name = pick
        self.touched = {grp.uid}
        ent = self.ent(hole.uid)
        data = ent.get_data(name)
        if not data:
            self.fail("data-lost", "remove_data", table.data[name]["kind"], "", f"{name} not found")
            return True
        kind = table.data[name]["kind"]
        table_data_uid = str(data[0].uid)
        if op["via"] == "ws":
            self.call(kind, self.ws().remove_entity, data[0])
        else:
            self.call(kind, ent.remove_children, [data[0]])
        del table.data[name]
        if not table.data:
            hole.tables.remove(table)  # the table disappears with its last data set
        self.res.label("remove_data:" + op["via"] + (":last-of-table" if not table.data else ""))
        self.removal_seen = True
        self.gone_uids.append((kind, table_data_uid))
        self.note_shared(name, hole)
        del data, ent
        gc.collect()
        return True

    def op_remove_hole(self, op):
        pick = self.pick(self.all_holes(), op["hole"])
        if pick is None:
            return False
        grp, hole = pick
        self.touched = {grp.uid}
        if len(grp.holes) <= 1 and len(self.all_holes()) <= 1:
            return False
        ent = self.ent(hole.uid)
        if op["via"] == "ws":
            self.call("Drillhole", self.ws().remove_entity, ent)
        else:
            parent = self.ent(grp.uid)
            self.call("Drillhole", parent.remove_children, [ent])
            del parent
        pos = grp.holes.index(hole)
        grp.holes.remove(hole)
        self.res.label(f"remove_hole:{op['via']}:" + ("middle" if 0 < pos < len(grp.holes) else "end"))
        self.removed_hole = True
        self.removal_seen = True
        self.gone_uids.append(("Drillhole", hole.uid))
        del ent
        gc.collect()
        return True

    removed_hole = False
    gone_uids: list = []

    def check_gone(self, opkind, where):
        """Lookups by identifier must not yield a removed concatenated entity (C05)."""
        gc.collect()
        for kind, uid in self.gone_uids:
            ent = self.ws().get_entity(uuid.UUID(uid))[0]
            if ent is not None:
                self.fail("lookup-yields-removed", opkind, kind, where, f"get_entity({uid}) still returns {type(ent).__name__}")
                return

    def op_remove_pg(self, op):
        cands = [(g, h, t) for g, h in self.all_holes() for t in h.tables]
        pick = self.pick(cands, op["pg"])
        if pick is None:
            return False
        grp, hole, table = pick
        self.touched = {grp.uid}
        ent = self.ent(hole.uid)
        pg = [p for p in (ent.property_groups or []) if str(p.uid) == table.pg_uid]
        if not pg:
            self.fail("table-lost", "remove_pg", "PropertyGroup", "", f"table {table.pg_name} of hole {hole.name} not on the live hole")
            return True
        self.call("PropertyGroup", self.ws().remove_entity, pg[0])
        hole.tables.remove(table)
        del pg, ent
        gc.collect()
        return True

    def op_remove_protected(self, op):
        """workspace.remove_entity on a location data set (allow_delete=False) must be refused and change nothing."""
        cands = [(g, h) for g, h in self.all_holes() if h.tables]
        pick = self.pick(cands, op["hole"])
        if pick is None:
            return False
        grp, hole = pick
        self.touched = {grp.uid}
        names = [n for t in hole.tables for n in t.loc_names]
        name = self.pick(names, op["which"])
        ent = self.ent(hole.uid)
        data = ent.get_data(name)
        if not data:
            self.fail("data-lost", "remove_protected", "location", "", f"{name} of hole {hole.name} not found")
            return True
        if data[0].allow_delete:
            return False
        raised = False
        try:
            self.ws().remove_entity(data[0])
        except Exception:
            raised = True
        self.res.label("remove_protected")
        self.removal_seen = True
        if not raised:
            self.fail("refusal-missing", "remove_ws", "location", "allow_delete=False",
                      f"removal of the protected {name} of hole {hole.name} was accepted")
            return True
        del data, ent
        self.check_live("remove_protected")
        return True

    removal_seen = False

    def op_copy_hole(self, op):
        pick = self.pick(self.all_holes(), op["hole"])
        if pick is None:
            return False
        grp, hole = pick
        self.touched = {grp.uid}
        targets = [g for g in self.groups if g.world == 0]
        tgt = self.pick(targets, op["group"])
        if len(tgt.holes) >= 5:
            return False
        self.touched = {tgt.uid}
        ent = self.ent(hole.uid)
        parent = self.ent(tgt.uid)
        new = self.call("Drillhole", ent.copy, parent=parent)
        self.adopt_hole_copy(hole, new, tgt, "copy_hole")
        return True

    def adopt_hole_copy(self, hole, new, tgt, opkind):
        if new is None or "Concatenated" not in type(new).__name__:
            self.fail("copy-not-concatenated", opkind, type(new).__name__, "", "copy of a concatenated hole is not a concatenated hole")
            return
        mh = MHole(str(new.uid), hole.name)
        pgs = {pg.name: pg for pg in (new.property_groups or [])}
        mh.extra_pgs = [str(pg.uid) for name, pg in pgs.items() if name == "todo"] if hole.extra_pgs else []
        for table in hole.tables:
            nt = MTable(table.type, table.key, table.locs)
            nt.pg_name = table.pg_name
            nt.loc_names = list(table.loc_names)
            pg = pgs.get(table.pg_name)
            nt.pg_uid = str(pg.uid) if pg is not None else None
            nt.data = {n: dict(rec) for n, rec in table.data.items()}
            mh.tables.append(nt)
        tgt.holes.append(mh)

    def op_copy_group(self, op):
        from geoh5py.workspace import Workspace

        groups = [g for g in self.groups if g.world == 0]
        grp = self.pick(groups, op["group"])
        cross = bool(op["ws"])
        if cross:
            if len(self.wss) < 2:
                self.paths.append(env.new_path("cc2"))
                self.wss.append(Workspace.create(self.paths[1], version=self.p.get("version", 2.1)))
            if any(g.world == 1 for g in self.groups):
                return False
            target = self.ws(1)
        else:
            if len(groups) >= 2:
                return False
            target = self.ws(0)
        ent = self.ent(grp.uid)
        new = self.call("DrillholeGroup", ent.copy, parent=target.root)
        if new is None:
            self.fail("copy-returned-none", "copy_group", "DrillholeGroup", "", "copy returned None")
            return True
        mg = MGroup(str(new.uid), 1 if cross else 0)
        self.touched = {mg.uid}
        live = {h.name: h for h in new.children if hasattr(h, "surveys")}
        kids = [h for h in new.children if hasattr(h, "surveys")]
        if len(kids) != len(grp.holes):
            self.fail("copy-hole-count", "copy_group", "DrillholeGroup", "cross" if cross else "same",
                      f"source has {len(grp.holes)} holes, copy has {len(kids)}")
            return True
        self.groups.append(mg)
        for hole, child in zip(grp.holes, kids):
            self.adopt_hole_copy(hole, child, mg, "copy_group")
            if self.stopped:
                return True
        self.res.label("copy_group:" + ("cross" if cross else "same"))
        return True

    def op_push(self, op):
        groups = [g for g in self.groups if g.world == 0]
        grp = self.pick(groups, op["group"])
        ent = self.ent(grp.uid)
        tables = self.call("tables", lambda: ent.drillholes_tables)
        self.touched = {grp.uid}
        names = sorted(tables)
        pg_name = self.pick(names, op["pg"])
        if pg_name is None:
            return False
        name = op["name"]
        members = [(h, t) for h in grp.holes for t in h.tables if t.pg_name == pg_name]
        if not members or any(name in h.names() for h in grp.holes):
            return False
        if len({t.type for _, t in members}) != 1:
            return False
        table = tables[pg_name]
        total = sum(t.length for _, t in members)
        arr, exp = make_vals("float", op["vals"] * 8, total)
        if len(arr) != total:
            return False
        # rows follow the order of the location index (start index of the first location array)
        try:
            self.call("push", table.add_values_to_property_group, name, arr)
        except LibError as exc:
            if exc.kind.startswith("KeyError"):
                self.res.label("push-refused-name-in-use")  # documented refusal: label still present in the group
                return False
            raise
        order = self.push_order(ent, members)
        pos = 0
        for hole, t in order:
            t.data[name] = {"kind": "float", "vals": exp[pos:pos + t.length], "uid": None}
            pos += t.length
        self.res.label("push")
        return True

    def push_order(self, group_ent, members):
        """Order of the holes in the group-wide table = start-index order of the first location array."""
        label = members[0][1].loc_names[0] if members[0][1].loc_names else None
        index = group_ent.index.get(label) if label else None
        if index is None:
            return members
        rows = sorted(index.tolist(), key=lambda r: r[0])
        by_uid = {("{" + h.uid + "}"): (h, t) for h, t in members}
        out = []
        for row in rows:
            key = row[2].decode() if isinstance(row[2], bytes) else row[2]
            if key in by_uid:
                out.append(by_uid[key])
        return out if len(out) == len(members) else members

    def op_reopen(self, op):
        self.do_reopen(final=False, same=bool(op.get("same")), lazy=bool(op.get("lazy")))
        return True

    # ---------------------------------------------------------------- checks
    def check_live(self, opkind, where="live"):
        if self.pid == "C05" and self.gone_uids:
            self.check_gone(opkind, where)
            if self.stopped:
                return
        for grp in self.groups:
            ws = self.ws(grp.world)
            gent = ws.get_entity(uuid.UUID(grp.uid))[0]
            if gent is None:
                self.fail("group-lost", opkind, "DrillholeGroup", where, f"group {grp.uid} not found")
                return
            live_holes = [c for c in gent.children if hasattr(c, "surveys")]
            live_uids = [str(c.uid) for c in live_holes]
            want_uids = [h.uid for h in grp.holes]
            if sorted(live_uids) != sorted(want_uids):
                extra = sorted(set(live_uids) - set(want_uids))
                missing = sorted(set(want_uids) - set(live_uids))
                cond = where + (":removed-hole-still-child" if extra and not missing and self.removed_hole else "")
                self.fail("holes-differ", opkind, "DrillholeGroup", cond,
                          f"group children (holes) {live_uids} expected {want_uids}")
                return
            for hole in grp.holes:
                ent = ws.get_entity(uuid.UUID(hole.uid))[0]
                if ent is None:
                    self.fail("hole-lost", opkind, "Drillhole", where, f"hole {hole.name} {hole.uid} not found")
                    return
                if ent.name != hole.name:
                    self.fail("hole-name", opkind, "Drillhole", where, f"name {ent.name!r} expected {hole.name!r}")
                    return
                try:
                    names = set(ent.get_data_list())
                except Exception as exc:
                    self.fail("data-list-raises", opkind, "Drillhole", where + (":after-rename" if self.renamed else ""), f"{type(exc).__name__}: {exc}")
                    return
                want = hole.names()
                if names != want:
                    cond = where + (":after-rename" if self.renamed else "")
                    self.fail("data-names-differ", opkind, "Drillhole", cond, f"hole {hole.name}: data {sorted(names)} expected {sorted(want)}")
                    return
                for table in hole.tables:
                    for i, loc_name in enumerate(table.loc_names):
                        want_vals = canon(table.locs if table.type == "depth" else table.locs[:, i])
                        if not self.check_values(ent, loc_name, want_vals, opkind, where, "location"):
                            return
                    for name, rec in table.data.items():
                        if not self.check_values(ent, name, rec["vals"], opkind, where, rec["kind"]):
                            return
            self.check_tables(grp, gent, opkind, where)
            if self.stopped:
                return

    def check_values(self, ent, name, want, opkind, where, kind):
        try:
            data = ent.get_data(name)
        except Exception as exc:
            self.fail("get-data-raises", opkind, kind, where + (":after-rename" if self.renamed else ""), f"{name}: {type(exc).__name__}: {exc}")
            return False
        if not data:
            self.fail("data-lost", opkind, kind, where, f"{name} of hole {ent.name} not found")
            return False
        if len(data) > 1:
            self.fail("data-duplicated", opkind, kind, where, f"{name} of hole {ent.name} found {len(data)} times")
            return False
        try:
            got = canon(data[0].values)
        except Exception as exc:
            self.fail("values-raises", opkind, kind, where, f"{name}: {type(exc).__name__}: {exc}")
            return False
        if got != want:
            self.fail("values-differ", opkind, kind, where + (":after-rename" if self.renamed else ""),
                      f"hole {ent.name} data {name}: read {got} expected {want}")
            return False
        return True

    def check_tables(self, grp, gent, opkind, where):
        """Group-wide table view lists exactly the per-hole values in hole (index) order."""
        if self.pid != "C04":
            return  # the group-wide table view is a C04 clause only
        by_name: dict = {}
        for hole in grp.holes:
            for table in hole.tables:
                by_name.setdefault(table.pg_name, []).append((hole, table))
        if not by_name:
            return
        try:
            tables = gent.drillholes_tables
        except Exception as exc:
            self.fail("tables-raise", opkind, "DrillholeGroup", where, f"{type(exc).__name__}: {exc}")
            return
        if set(tables) - {"todo"} != set(by_name):
            self.fail("table-names-differ", opkind, "DrillholeGroup", where, f"tables {sorted(tables)} expected {sorted(by_name)}")
            return
        for pg_name, members in by_name.items():
            if len({t.type for _, t in members}) != 1:
                continue  # same name for a depth and an interval table: view not defined by the statement
            if len({tuple(t.loc_names) for _, t in members}) != 1:
                continue  # location arrays named differently between holes (DEPTH vs DEPTH(1)): view undefined
            # known finding: the view looks a property up by NAME in the whole hole, so a hole that has a
            # data set of that name in ANOTHER of its tables leaks it into this view
            all_props = {n for _, t in members for n in t.data}
            leak = any(n in other.data for hole, t in members for other in hole.tables if other is not t for n in all_props)
            cond = where
            if leak:
                if not self.p.get("allow_known"):
                    self.res.count("excluded_by_finding")
                    continue
                cond = where + ":name-in-other-table-of-hole"
            try:
                view = tables[pg_name].depth_table
            except Exception as exc:
                self.fail("table-view-raises", opkind, "DrillholeGroup", cond, f"{pg_name}: {type(exc).__name__}: {exc}")
                return
            order = self.push_order(gent, members)
            cols = list(view.dtype.names)
            rows_want = []
            props = sorted({n for _, t in members for n in t.data})
            kinds = {n: t.data[n]["kind"] for _, t in members for n in t.data}
            if len({(n, t.data[n]["kind"]) for _, t in members for n in t.data}) != len(props):
                continue  # one name used with two kinds across holes: padding value undefined
            for hole, t in order:
                for r in range(t.length):
                    row = ["{" + hole.uid + "}"]
                    row += [float(t.locs[r])] if t.type == "depth" else [float(t.locs[r, 0]), float(t.locs[r, 1])]
                    for n in props:
                        row.append(t.data[n]["vals"][r] if n in t.data else PAD[kinds[n]])
                    rows_want.append(row)
            want_cols = ["Drillhole"] + list(members[0][1].loc_names) + props
            if cols != want_cols:
                self.fail("table-columns-differ", opkind, "DrillholeGroup", where, f"{pg_name}: columns {cols} expected {want_cols}")
                return
            rows_got = []
            for rec in view.tolist():
                rows_got.append([canon([v])[0] for v in rec])
            if rows_got != rows_want:
                self.fail("table-rows-differ", opkind, "DrillholeGroup", cond, f"{pg_name}: rows {rows_got} expected {rows_want}")
                return

    # ---------------------------------------------------------------- raw predicate
    def check_raw(self, world, opkind):
        snap = rawsnap(str(self.paths[world]))
        for grp in [g for g in self.groups if g.world == world]:
            node = snap["containers"].get("Groups", {}).get("{" + grp.uid + "}")
            if node is None or node["concat"] is None:
                self.fail("raw-group-missing", opkind, "DrillholeGroup", "", f"group {grp.uid} has no Concatenated Data block")
                return
            concat = node["concat"]
            live_holes = {"{" + h.uid + "}" for h in grp.holes}
            live_data = {}
            live_pgs = set()
            for h in grp.holes:
                for t in h.tables:
                    if t.pg_uid:
                        live_pgs.add("{" + t.pg_uid + "}")
            lengths = {}
            for label, raw in concat["raw"].items():
                lengths[label] = int(np.asarray(raw).shape[0]) if np.asarray(raw).shape else 1
            labels = set(concat["index"]) | {l for l in lengths if l not in ("Attributes", "Attributes Jsons")}
            for label in sorted(labels):
                rows = concat["index"].get(label)
                if rows is None:
                    self.fail("raw-data-without-index", opkind, label_class(label), "", f"Data/{label} has no Index/{label}")
                    return
                if label not in lengths:
                    if rows:
                        self.fail("raw-index-without-data", opkind, label_class(label), "", f"Index/{label} has rows {rows} but no data array")
                        return
                    continue
                pos = 0
                seen = set()
                for start, size, oid, did in sorted(rows, key=lambda r: (r[0], r[1])):
                    if size == 0 and oid in live_holes:
                        continue  # an empty slice of a live hole tiles trivially
                    if start != pos:
                        self.fail("raw-gap-or-overlap", opkind, label_class(label), "", f"Index/{label} rows {rows}: expected start {pos}, got {start}")
                        return
                    pos += size
                    if (oid, did) in seen:
                        self.fail("raw-duplicate-row", opkind, label_class(label), "", f"Index/{label} lists {(oid, did)} twice")
                        return
                    seen.add((oid, did))
                    if oid not in live_holes:
                        cond = "after-hole-removal" if self.removed_hole else ""
                        self.fail("raw-stale-row", opkind, label_class(label), cond, f"Index/{label} row for object {oid} which is not a live hole of the group")
                        return
                if pos != lengths[label]:
                    self.fail("raw-not-tiled", opkind, label_class(label), "", f"Index/{label} covers {pos} of {lengths[label]} entries")
                    return
            # attribute records
            attrs = concat["attributes"]
            if not isinstance(attrs, list):
                self.fail("raw-attributes-undecodable", opkind, "Attributes", "", str(attrs))
                return
            ids = [rec.get("ID") for rec in attrs]
            if len(ids) != len(set(ids)):
                self.fail("raw-attribute-duplicate", opkind, "Attributes", "", f"record IDs not unique: {ids}")
                return
            rec_by_id = {rec.get("ID"): rec for rec in attrs}
            want_ids = set(live_holes)
            for h in grp.holes:
                rec = rec_by_id.get("{" + h.uid + "}")
                if rec is None:
                    self.fail("raw-attribute-missing", opkind, "Drillhole", "", f"no attribute record for hole {h.uid}")
                    return
                props = {k[len("Property:"):].replace("⁄", "/"): v for k, v in rec.items() if k.startswith("Property:")}
                if set(props) != h.names():
                    cond = ":after-rename" if self.renamed else ""
                    self.fail("raw-property-keys", opkind, "Drillhole", cond, f"hole {h.name}: Property keys {sorted(props)} expected {sorted(h.names())}")
                    return
                want_ids |= set(props.values())
            want_ids |= live_pgs
            # records of property groups without properties are allowed, not demanded
            optional = {"{" + u + "}" for h in grp.holes for u in h.extra_pgs}
            got_ids = set(ids) - (optional - want_ids)
            if got_ids != want_ids:
                extra = sorted(got_ids - want_ids)
                missing = sorted(want_ids - got_ids)
                self.fail("raw-attribute-records", opkind, "Attributes", "extra" if extra else "missing",
                          f"records extra={extra} missing={missing}")
                return
            # concatenated object ids
            holes_ds = node_concat_object_ids(self.paths[world], grp.uid)
            if holes_ds is not None and sorted(holes_ds) != sorted(live_holes):
                self.fail("raw-object-ids", opkind, "DrillholeGroup", "", f"Concatenated object IDs {holes_ds} expected {sorted(live_holes)}")
                return

    def do_reopen(self, final, same=False, lazy=False):
        from geoh5py.workspace import Workspace

        self.stats["reopens"] += 1
        if not self.p.get("check_every"):
            self.check_live("pre-close")
            if self.stopped:
                return
        for world in range(len(self.wss)):
            self.wss[world].close()
        gc.collect()
        for world in range(len(self.wss)):
            self.check_raw(world, "close")
            if self.stopped:
                return
        for world in range(len(self.wss)):
            if same:
                self.wss[world].open()  # close() / open() on the same Workspace object
                self.res.label("reopen:same-object")
            else:
                self.wss[world] = Workspace(self.paths[world])
        if lazy and not final:
            # nothing is read in the new session until an ordinary object was removed (or the next re-open): what the
            # session has not loaded must survive the purges that such a removal triggers
            self.lazy = True
            self.res.label("reopen:lazy")
            return
        self.check_live("reopen", where="reopened")


class LibError(Exception):
    def __init__(self, label, kind, detail):
        super().__init__(label)
        self.label, self.kind, self.detail = label, kind, detail


def label_class(label):
    if label in ("Surveys", "Trace", "Property Group IDs", "TraceDepth"):
        return label.replace(" ", "")
    if label.upper().startswith(("DEPTH", "FROM", "TO")):
        return "location"
    return "data"


def node_concat_object_ids(path, group_uid):
    import h5py

    with h5py.File(path, "r") as h5:
        node = h5[list(h5)[0]]["Groups"]["{" + group_uid + "}"]
        if "Concatenated object IDs" not in node:
            return None
        raw = node["Concatenated object IDs"][()]
        return [v.decode() if isinstance(v, bytes) else str(v) for v in np.atleast_1d(raw).tolist()]


GUARDS = {"rename_data": False}  # (the rename finding is repaired: guard retired)
