"""Engine `spatial`: scenes of objects + boxes (C13) and lists of mergeable inputs (C16).

Everything a case does is described by a JSON-able *program*; nothing here draws random numbers.
The reference oracles (closed-box test, cell rule, sub-grid rule, merge concatenation) are written in
plain Python from the property statements; they never call geoh5py's mask_by_extent / box_intersect /
merging code.
"""
from __future__ import annotations

import math

import numpy as np
from hypothesis import strategies as st

from .. import env

INT_NDV = -2147483648
NODATA = {"float": "NaN", "int": INT_NDV, "ref": INT_NDV, "bool": False, "text": ""}
CELL_CLASSES = ("Curve", "Surface")
GRID_CLASSES = ("Grid2D", "BlockModel", "Octree")


# =============================================================================== small helpers
def tolist(arr):
    """Values of a data entity as a plain list, NaN spelled 'NaN' (so == works)."""
    if arr is None:
        return None
    if isinstance(arr, str):
        return [arr]
    out = []
    for v in np.asarray(arr).ravel().tolist():
        if isinstance(v, float) and v != v:
            out.append("NaN")
        else:
            out.append(v)
    return out


def coords_list(arr):
    if arr is None:
        return None
    return [[float(c) for c in row] for row in np.asarray(arr, dtype=float).reshape(-1, 3).tolist()]


def make_values(kind, vals, count):
    """(array to hand to add_data, expected list) of exactly `count` entries from program ints/None."""
    vals = list(vals) or [0]
    seq = [vals[i % len(vals)] for i in range(count)]
    if kind == "float":
        exp = ["NaN" if v is None else v / 4.0 for v in seq]
        arr = np.asarray([np.nan if v is None else v / 4.0 for v in seq], dtype=float)
    elif kind == "int":
        exp = [INT_NDV if v is None else int(v) for v in seq]
        arr = np.asarray(exp, dtype="int32")
    elif kind == "ref":
        exp = [abs(v or 0) % 3 for v in seq]
        arr = np.asarray(exp, dtype="int32")
    elif kind == "bool":
        exp = [bool((v or 0) % 2) for v in seq]
        arr = np.asarray(exp, dtype=bool)
    elif kind == "text":
        exp = ["" if v is None else f"s{v}" for v in seq]
        arr = np.asarray(exp, dtype=str) if exp else np.asarray([], dtype=str)
    else:  # pragma: no cover
        raise ValueError(kind)
    return arr, exp


def data_attrs(kind, assoc, arr, type_name=None):
    spec = {"values": arr, "association": assoc}
    prim = {"float": "FLOAT", "int": "INTEGER", "ref": "REFERENCED", "bool": "BOOLEAN", "text": "TEXT"}[kind]
    if type_name is None:
        spec["type"] = prim.lower()
    else:
        spec["entity_type"] = {"primitive_type": prim, "name": type_name}
    if kind == "ref":
        spec["value_map"] = {1: "A", 2: "B"}
    return spec


# =============================================================================== reference box test
def inside(pt, lo, hi, dims):
    """Closed axis-aligned box; `dims` = 2 ignores the elevation."""
    for k in range(dims):
        if not lo[k] <= pt[k] <= hi[k]:
            return False
    return True


def bbox_miss(coords, lo, hi, dims):
    """True when the box does not meet the bounding box of `coords` (closed intervals)."""
    if not coords:
        return True
    for k in range(dims):
        cmin = min(c[k] for c in coords)
        cmax = max(c[k] for c in coords)
        if max(cmin, lo[k]) > min(cmax, hi[k]):
            return True
    return False


def qualify(coords, lo, hi, dims, inverse):
    return [inside(c, lo, hi, dims) != bool(inverse) for c in coords]


def cell_rule(q, cells):
    """Kept cells = all vertices qualify; kept vertices = those used by a kept cell."""
    kept = [all(q[v] for v in cell) for cell in cells]
    vmask = [False] * len(q)
    for keep, cell in zip(kept, cells):
        if keep:
            for v in cell:
                vmask[v] = True
    return kept, vmask


# =============================================================================== face candidates
def face_candidates(values, exact):
    """Sorted candidate positions of box faces along one axis for the coordinates `values`.

    exact  : coordinates lie on a quarter lattice -> faces on the coordinates themselves and half a unit
             either side (ties on purpose; comparisons are exact in binary floating point).
    inexact: faces midway between clusters of coordinates further than 1e-6 apart (never a tie)."""
    vals = sorted(set(values))
    if not vals:
        return [-1.0, 0.0, 1.0]
    if exact:
        cand = set()
        for v in vals:
            cand.update((v - 0.5, v, v + 0.5))
        cand.update((vals[0] - 2.0, vals[-1] + 2.0))
        return sorted(cand)
    clusters = [[vals[0], vals[0]]]
    for v in vals[1:]:
        if v - clusters[-1][1] > 1e-6:
            clusters.append([v, v])
        else:
            clusters[-1][1] = v
    pad = 1.0 + 0.25 * (vals[-1] - vals[0])
    cand = [vals[0] - 2 * pad, vals[0] - pad]
    for left, right in zip(clusters[:-1], clusters[1:]):
        cand.append(0.5 * (left[1] + right[0]))
    cand += [vals[-1] + pad, vals[-1] + 2 * pad]
    return cand


def on_quarter_lattice(coords):
    for c in coords:
        for x in c:
            if x * 4.0 != math.floor(x * 4.0) or abs(x) > 1e6:
                return False
    return True


def make_box(coords, box, exact):
    """(lo, hi) lists of 3 floats from the box description of a query and the scene coordinates.

    modes: free  = per axis an interval [a, a+d] of candidate faces (biased to meet the coordinate range);
           all   = everything; miss = strictly beyond every coordinate on one axis;
           thin  = one or two candidates wide on one axis, everything on the others;
           point = the tightest candidate box around one element (exact: the element itself, min == max)."""
    lo, hi = [], []
    mode = box.get("mode", "free")
    elem = coords[box["a"][0] % len(coords)] if coords else [0.0, 0.0, 0.0]
    for k in range(3):
        cand = face_candidates([c[k] for c in coords], exact)
        n = len(cand)
        a, d = box["a"][k], box["d"][k]
        if mode == "all" or (mode == "thin" and k != box.get("axis", 1)):
            i0, i1 = 0, n - 1
        elif mode == "miss" and k == box.get("axis", 0):
            # the two outermost candidates on either side lie strictly beyond every coordinate
            i0, i1 = (n - 2, n - 1) if a % 2 else (0, 1)
        elif mode == "touch" and k == box.get("axis", 0):
            # the box meets the coordinate range on one face from outside: the extreme coordinate itself is the
            # face (the same float, so the comparison is exact on any lattice)
            vals = [c[k] for c in coords] or [0.0]
            pad = (1.0 + 0.25 * (max(vals) - min(vals))) * (1.0 if exact else 0.7)
            if a % 2:
                lo.append(float(max(vals)))
                hi.append(float(max(vals) + pad * (1 + d % 3)))
            else:
                hi.append(float(min(vals)))
                lo.append(float(min(vals) - pad * (1 + d % 3)))
            continue
        elif mode == "touch":
            i0, i1 = 0, n - 1
        elif mode == "point":
            below = [i for i, c in enumerate(cand) if c <= elem[k]] if exact else [i for i, c in enumerate(cand) if c < elem[k]]
            i0 = below[-1] if below else 0
            i1 = i0 if exact and cand[i0] == elem[k] else min(i0 + 1, n - 1)
            if d == 40:  # sometimes widen by one candidate either side
                i0, i1 = max(i0 - 1, 0), min(i1 + 1, n - 1)
        elif mode == "thin":
            i0 = 1 + a % (n - 2)
            i1 = min(i0 + 1 + (d % 3), n - 1) if not exact else min(i0 + (d % 3), n - 1)
        else:
            i0 = a % (n - 2)
            i1 = max(min(i0 + d, n - 1), 2)
        lo.append(float(cand[i0]))
        hi.append(float(cand[i1]))
    return lo, hi


# =============================================================================== scene building (C13)
class Model:
    """What the harness knows about one created object (reference side)."""

    def __init__(self, cls, name):
        self.cls = cls
        self.name = name
        self.coords = []  # element coordinates: vertices / centroids / [collar]
        self.cells = None  # list of tuples for cell objects
        self.data = []  # (name, kind, assoc, expected list)
        self.grid = None  # Grid2D parameters
        self.obj = None
        self.dh_data = False


def lattice_vertices(pts, scale):
    return [[p[0] / 2.0 * scale, p[1] / 2.0 * scale, p[2] / 2.0 * scale] for p in pts]


def octree_cells(nu, nv, nw, splits):
    """Records (i, j, k, n) tiling an nu x nv x nw base grid; `splits` flags drive subdivision."""
    base = min(nu, nv, nw)
    todo = [(i, j, k, base) for k in range(0, nw, base) for j in range(0, nv, base) for i in range(0, nu, base)]
    out = []
    flags = list(splits)
    pos = 0
    while todo:
        i, j, k, n = todo.pop(0)
        flag = flags[pos % len(flags)] if flags else False
        pos += 1
        if n > 1 and flag and len(out) + len(todo) < 40:
            h = n // 2
            todo = [(i + a * h, j + b * h, k + c * h, h) for c in (0, 1) for b in (0, 1) for a in (0, 1)] + todo
        else:
            out.append([i, j, k, n])
    return out


def build_object(ws, spec, name, parent=None):
    """Create the object described by `spec`; returns a Model (model.obj is the live entity)."""
    from geoh5py import objects

    cls = spec["cls"]
    model = Model(cls, name)
    kwargs = {"name": name}
    if parent is not None:
        kwargs["parent"] = parent
    if cls in ("Points", "Curve", "Surface"):
        verts = lattice_vertices(spec["pts"], spec.get("scale", 1.0))
        n = len(verts)
        kwargs["vertices"] = np.asarray(verts, dtype=float).reshape(-1, 3)
        if cls != "Points":
            width = 2 if cls == "Curve" else 3
            cells = [tuple(int(v) % n for v in cell[:width]) for cell in spec["cells"]]
            kwargs["cells"] = np.asarray(cells, dtype="uint32").reshape(-1, width)
            model.cells = cells
        moved = spec.get("moved")
        if moved:
            final = kwargs["vertices"]
            obj = getattr(objects, cls).create(ws, **{**kwargs, "vertices": final + np.asarray(moved, dtype=float)})
            _ = obj.extent  # the bounding box is in use before the vertices are assigned
            obj.vertices = final
        else:
            obj = getattr(objects, cls).create(ws, **kwargs)
        model.coords = verts
    elif cls == "Grid2D":
        kwargs.update(
            origin=[v / 2.0 for v in spec["origin"]],
            u_count=int(spec["nu"]), v_count=int(spec["nv"]),
            u_cell_size=float(spec["du"]), v_cell_size=float(spec["dv"]),
            rotation=float(spec["rot"]), dip=float(spec["dip"]),
        )
        regeom = spec.get("regeom")
        if regeom:
            # created with another rotation / dip, used once, then given the final geometry through the setters; the
            # reference centres are those of a twin created with the final geometry (removed again)
            obj = objects.Grid2D.create(ws, **{**kwargs, "rotation": float(regeom["rot"]), "dip": float(regeom["dip"])})
            _ = obj.centroids
            first, second = ("rotation", "dip") if not regeom.get("order") else ("dip", "rotation")
            setattr(obj, first, kwargs[first])
            _ = obj.centroids  # the centres are in use between the two assignments
            setattr(obj, second, kwargs[second])
            twin = objects.Grid2D.create(ws, **{**kwargs, "name": name + "_twin"})
            model.coords = coords_list(twin.centroids)
            ws.remove_entity(twin)
            del twin
        else:
            obj = objects.Grid2D.create(ws, **kwargs)
            model.coords = coords_list(obj.centroids)
        model.grid = {"nu": int(spec["nu"]), "nv": int(spec["nv"])}
    elif cls == "BlockModel":
        def delim(steps, sign):
            return np.r_[0.0, np.cumsum([float(s) for s in steps])] * sign

        kwargs.update(
            origin=[v / 2.0 for v in spec["origin"]],
            u_cell_delimiters=delim(spec["u"], 1.0),
            v_cell_delimiters=delim(spec["v"], 1.0),
            z_cell_delimiters=delim(spec["z"], -1.0 if spec.get("zdown", True) else 1.0),
            rotation=float(spec["rot"]),
        )
        obj = objects.BlockModel.create(ws, **kwargs)
        model.coords = coords_list(obj.centroids)
    elif cls == "Octree":
        cells = octree_cells(spec["nu"], spec["nv"], spec["nw"], spec.get("splits", []))
        kwargs.update(
            origin=[v / 2.0 for v in spec["origin"]],
            u_count=int(spec["nu"]), v_count=int(spec["nv"]), w_count=int(spec["nw"]),
            u_cell_size=float(spec["du"]), v_cell_size=float(spec["dv"]), w_cell_size=float(spec["dw"]),
            rotation=float(spec["rot"]),
            octree_cells=np.asarray(cells, dtype="int32"),
        )
        obj = objects.Octree.create(ws, **kwargs)
        model.coords = coords_list(obj.centroids)
    elif cls == "Drillhole":
        collar = [v / 2.0 for v in spec["collar"]]
        kwargs.update(collar=collar, surveys=np.asarray([[0.0, 0.0, -90.0], [10.0, 0.0, -90.0]]))
        obj = objects.Drillhole.create(ws, **kwargs)
        model.coords = [collar]
        if spec.get("with_data"):
            obj.add_data({"assay": {"depth": np.asarray([1.0, 2.0, 3.0]), "values": np.asarray([1.0, 2.0, 3.0])}})
            model.dh_data = True
    else:  # pragma: no cover
        raise ValueError(cls)
    model.obj = obj
    # ---- data sets
    if cls != "Drillhole":
        for k, dspec in enumerate(spec.get("data", [])):
            assoc = dspec["assoc"]
            if cls == "Points" or cls in GRID_CLASSES:
                assoc = "VERTEX" if cls == "Points" else "CELL"
            count = len(model.coords) if (assoc == "VERTEX" or cls in GRID_CLASSES) else len(model.cells)
            if count == 0:
                continue
            arr, exp = make_values(dspec["kind"], dspec["vals"], count)
            dname = f"d{k}_{dspec['kind']}"
            obj.add_data({dname: data_attrs(dspec["kind"], assoc, arr)})
            model.data.append((dname, dspec["kind"], assoc, exp))
    return model


# =============================================================================== strategies (shared)
small = st.integers(-4, 4)
pt3 = st.tuples(small, small, small).map(list)
val = st.one_of(st.integers(-9, 9), st.integers(-9, 9), st.integers(-9, 9), st.none())
ANGLE_POOL = [0.0, 90.0, 180.0, 45.0, 30.0, 60.0, -45.0, 135.0, math.degrees(math.atan(0.5)),
              -math.degrees(math.atan(0.5)), math.degrees(math.atan(1 / 3.0)), math.degrees(math.atan(2.0)),
              180.0 + math.degrees(math.atan(0.5)), 10.0, 350.0]
DIP_POOL = [0.0, 0.0, 30.0, 45.0, 60.0, 90.0, -30.0, -45.0, 28.0]


def data_sets(assocs, kinds=("float", "float", "float", "int", "int", "bool", "ref", "text"), max_size=3):
    one = st.fixed_dictionaries({
        "kind": st.sampled_from(list(kinds)),
        "assoc": st.sampled_from(list(assocs)),
        "vals": st.lists(val, min_size=1, max_size=10),
    })
    return st.lists(one, min_size=0, max_size=max_size)


@st.composite
def cells_strategy(draw, n, width, min_cells=1, max_cells=8):
    """Cells over arbitrary subsets of the n vertices, arbitrary order, repeats allowed."""
    mode = draw(st.sampled_from(["any", "any", "prefix", "chain"]))
    if mode == "chain" and n >= width:
        cells = [[i + k for k in range(width)] for i in range(n - width + 1)]
        if draw(st.booleans()):
            cells = draw(st.permutations(cells))
        return [list(c) for c in cells][:max_cells]
    top = n - 1
    if mode == "prefix":  # trailing unreferenced vertices by construction
        top = draw(st.integers(0, max(0, n - 2)))
    idx = st.integers(0, top)
    return draw(st.lists(st.lists(idx, min_size=width, max_size=width), min_size=min_cells, max_size=max_cells))
