"""`values` engine, part 2 (C08): reference codec written from the format documentation.

expected(kind, array, count) -> ("accept", read_back_list, raw_dtype_kind, raw_list) | ("reject", reason)
No geoh5py import here.
"""
from __future__ import annotations

import math

import numpy as np
from hypothesis import strategies as st

FLOAT_NDV = 1.17549435e-38  # docs/content/geoh5_format: float no-data value
INT_NDV = -2147483648  # integer no-data value
INT32_MIN, INT32_MAX = -(2 ** 31), 2 ** 31 - 1

# ----------------------------------------------------------------------------- boundary pools
FLOAT_POOL = {
    "0": 0.0, "-0": -0.0, "1": 1.0, "-1": -1.0, "half": 0.5, "2^31": 2.0 ** 31, "-2^31": -(2.0 ** 31),
    "2^31-1": 2.0 ** 31 - 1, "2^32-1": 2.0 ** 32 - 1, "2^53": 2.0 ** 53, "-2^53": -(2.0 ** 53),
    "max": 1.7976931348623157e308, "-max": -1.7976931348623157e308, "subnormal": 5e-324,
    "tiny32": 1.401298464324817e-45, "inf": math.inf, "-inf": -math.inf, "nan": math.nan,
    "ndv_next": float(np.nextafter(np.float64(FLOAT_NDV), 1.0)), "ndv_prev": float(np.nextafter(np.float64(FLOAT_NDV), 0.0)),
    "ndv": FLOAT_NDV, "ndv*(1+5e-6)": FLOAT_NDV * (1 + 5e-6), "ndv*(1-5e-6)": FLOAT_NDV * (1 - 5e-6),
    "tiny32_exact": float(np.finfo(np.float32).tiny), "1e-38": 1e-38, "pi": math.pi, "1e10": 1e10, "3e10": 3e10, "-1.5": -1.5,
}
INT_POOL = {
    "0": 0, "1": 1, "-1": -1, "2": 2, "7": 7, "-7": -7, "255": 255, "2^31-1": INT32_MAX, "2^31": 2 ** 31,
    "-2^31": INT32_MIN, "-2^31+1": INT32_MIN + 1, "-2^31-1": INT32_MIN - 1, "2^32-1": 2 ** 32 - 1, "2^32": 2 ** 32,
    "2^31+5": 2 ** 31 + 5, "2^53": 2 ** 53, "2^63-1": 2 ** 63 - 1, "-2^63": -(2 ** 63), "2^64-1": 2 ** 64 - 1,
    "65536": 65536, "-32768": -32768, "127": 127, "-128": -128,
}
FLOAT_DTYPES = ["float16", "float32", "float64"]
INT_DTYPES = ["int8", "int16", "int32", "int64", "uint8", "uint16", "uint32", "uint64"]
TEXTS = ["", "a", "plain ascii", "Ωμέγα", "名前テスト", "é combining", "😀 astral", "tab\there", "line\nbreak",
         "quote\"'", "trailing ", " leading", "{not-a-uuid}", "1", "nan", "x" * 300]


def token_array(dtype: str, tokens) -> np.ndarray:
    """Array of `dtype` from boundary tokens / small ints; tokens that do not fit the dtype become 0."""
    dt = np.dtype(dtype)
    vals = []
    for tok in tokens:
        if isinstance(tok, int):
            val = tok
        elif dt.kind == "f":
            val = FLOAT_POOL.get(tok, INT_POOL.get(tok, 0))
        else:
            val = INT_POOL.get(tok, 0)
        if dt.kind in "iu":
            info = np.iinfo(dt)
            if not isinstance(val, int) or val < info.min or val > info.max:
                val = 0
        elif dt.kind == "b":
            val = bool(val) if isinstance(val, (int, bool)) and val in (0, 1) else False
        vals.append(val)
    with np.errstate(over="ignore", invalid="ignore"):
        return np.asarray(vals, dtype=dt)


def is_ndv_float(v: float) -> bool:
    """The documented exception is a float EXACTLY equal to the sentinel (float64 comparison)."""
    return float(v) == FLOAT_NDV


def expected(kind: str, arr: np.ndarray, count: int):
    """Reference verdict and read-back for numeric kinds (float / int / ref / bool)."""
    n = int(arr.shape[0])
    if arr.ndim != 1:
        return ("unspecified", "not 1-D")
    if n > count:
        return ("reject", "more entries than the geometry")
    if arr.dtype.kind not in "fiub":
        return ("reject", "unsupported dtype")
    vals = arr.tolist()
    if kind == "float":
        if arr.dtype.kind == "b":
            return ("unspecified", "bool offered to float data")
        out, raw, exception = [], [], False
        for v in vals:
            f = float(v)
            if arr.dtype.kind in "iu" and abs(int(v)) > 2 ** 53:
                return ("unspecified", "integer beyond 2^53 offered to float data")
            if f != f:
                out.append("NaN")
                raw.append("NDV")
            elif is_ndv_float(f):
                exception = True  # documented exception: equals the sentinel
                out.append("NaN")
                raw.append("NDV")
            else:
                out.append(f)
                raw.append(f)
        out += ["NaN"] * (count - n)
        raw += ["NDV"] * (count - n)
        return ("accept", out, "f", raw, exception)
    if kind in ("int", "ref"):
        out = []
        for v in vals:
            if isinstance(v, float):
                if v != v:
                    out.append(INT_NDV)
                    continue
                if math.isinf(v) or v != math.floor(v):
                    return ("reject", "non-integral value")
                v = int(v)
            if isinstance(v, bool):
                v = int(v)
            if v < INT32_MIN or v > INT32_MAX:
                return ("reject", "outside the 32-bit range")
            out.append(int(v))
        out += [INT_NDV] * (count - n)
        return ("accept", out, "i", list(out), False)
    if kind == "bool":
        out = []
        for v in vals:
            if isinstance(v, float) and v != v:
                return ("unspecified", "NaN offered to boolean data")
            if v not in (0, 1):
                return ("reject", "not 0/1")
            out.append(bool(v))
        out += [False] * (count - n)
        return ("accept", out, "i", [int(b) for b in out], False)
    return ("unspecified", kind)


# ----------------------------------------------------------------------------- strategies
def numeric_case():
    kinds = st.sampled_from(["float", "int", "bool", "ref", "int", "float"])

    @st.composite
    def build(draw):
        kind = draw(kinds)
        if kind == "float":
            dtype = draw(st.sampled_from(FLOAT_DTYPES + FLOAT_DTYPES + INT_DTYPES[:4]))
        elif kind in ("int", "ref"):
            dtype = draw(st.sampled_from(INT_DTYPES + FLOAT_DTYPES))
        else:
            dtype = draw(st.sampled_from(["bool", "int8", "uint8", "int64", "float64", "bool"]))
        pool = sorted(FLOAT_POOL) if np.dtype(dtype).kind == "f" else sorted(INT_POOL)
        if kind == "bool":
            tok = st.one_of(st.sampled_from([0, 1, 0, 1, 0, 1, 2, -1]), st.sampled_from(["nan", "half"] if np.dtype(dtype).kind == "f" else ["2", "255"]))
        else:
            tok = st.one_of(st.sampled_from(pool), st.integers(-9, 9))
        count = draw(st.integers(1, 6))
        n = draw(st.integers(0, count + 2)) if draw(st.integers(0, 4)) == 0 else count
        n = max(n, 1)
        return {"family": "numeric", "kind": kind, "dtype": dtype, "tokens": draw(st.lists(tok, min_size=n, max_size=n)),
                "count": count, "via": draw(st.sampled_from(["add", "add", "set"])),
                "explicit": draw(st.booleans()), "assoc": draw(st.sampled_from(["VERTEX", "CELL"])),
                "allow_known": draw(st.integers(0, 9)) == 0,
                # the same entries offered as a column, a row or an (n, 2) block
                "shape2d": draw(st.sampled_from([None] * 6 + ["col", "row", "block", "block"]))}

    return build()


def text_case():
    @st.composite
    def build(draw):
        count = draw(st.integers(1, 5))
        form = draw(st.sampled_from(["array", "array", "str", "bytes_array", "bytes"]))
        strings = st.one_of(st.sampled_from(TEXTS), st.text(max_size=12))
        vals = draw(st.lists(strings, min_size=count, max_size=count))
        return {"family": "text", "form": form, "vals": vals, "count": count,
                "via": draw(st.sampled_from(["add", "set"])), "allow_known": draw(st.integers(0, 9)) == 0}

    return build()


def other_case():
    json_scalar = st.one_of(st.integers(-10 ** 9, 10 ** 9), st.sampled_from(TEXTS), st.booleans(), st.none(),
                            st.floats(allow_nan=False, allow_infinity=False, width=64))
    uid = st.integers(1, 2 ** 100).map(lambda i: "uuid:%032x" % (i % (1 << 128)))
    # leaves JSON cannot hold ("np:<kind>"): the setter has to refuse them or give them back unchanged
    odd = st.sampled_from(["np:array", "np:int64", "np:float32", "np:bytes", "np:set", "np:complex", "np:tuple"])
    leaf = st.one_of(json_scalar, json_scalar, json_scalar, uid, uid, odd)
    meta = st.dictionaries(st.sampled_from(["a", "B c", "Ω", "k3"]), st.one_of(leaf, st.dictionaries(st.sampled_from(["x", "y z"]), leaf, max_size=2)), min_size=1, max_size=3)
    comments = st.lists(st.fixed_dictionaries({"Author": st.sampled_from(TEXTS), "Date": st.just("2020-05-21T10:12:15"), "Text": st.sampled_from(TEXTS)}), min_size=1, max_size=3)
    blob = st.binary(min_size=0, max_size=4096)
    vmap = st.dictionaries(st.one_of(st.integers(1, 20), st.sampled_from([2 ** 16, 2 ** 31, 2 ** 32 - 1])), st.sampled_from(TEXTS[1:]), min_size=1, max_size=4)
    return st.one_of(
        st.fixed_dictionaries({"family": st.just("metadata"), "value": meta, "on": st.sampled_from(["object", "group"])}),
        st.fixed_dictionaries({"family": st.just("comments"), "value": comments, "on": st.sampled_from(["object", "group"])}),
        st.fixed_dictionaries({"family": st.just("file"), "blob": blob.map(lambda b: b.hex()), "name": st.sampled_from(["f.dat", "Ω.bin", "a b.txt"]), "on": st.sampled_from(["object", "group"])}),
        st.fixed_dictionaries({"family": st.just("valuemap"), "value": vmap.map(lambda d: {str(k): v for k, v in d.items()}), "zero": st.sampled_from([None, "Unknown", "Unknown", "other"]),
                               # a later edit of the stored map: none / a fresh dictionary / the live map edited in place and
                               # assigned back (as map object or as its dictionary), in the creating or in a new session
                               "edit": st.sampled_from([None, "fresh", "inplace-map", "inplace-dict"]),
                               "session": st.sampled_from(["same", "new"]),
                               "relabel": st.sampled_from(TEXTS[1:]), "newkey": st.integers(21, 40)}),
    )


def case_strategy():
    return st.one_of(numeric_case(), numeric_case(), numeric_case(), text_case(), other_case())
