"""`tree` engine: histories over groups / objects / data / property groups in one or two workspaces.

A *program* is a JSON-able dict {"ops": [...], "observe": "every"|"reopen", "ws2": bool, ...}.
Entity references are small integers resolved at execution time against the reference model
(index modulo number of candidates), so every program is executable and shrinking never
invalidates later operations.
"""
from __future__ import annotations

import copy as _copy
import gc
import uuid

import numpy as np
from hypothesis import strategies as st

from .. import env, factory as F
from ..apisnap import apisnap, diff_nodes, snap_entity
from ..rawsnap import node_digests, rawsnap
from ..validity import check_valid

FLAGS = ["public", "visible", "allow_delete", "allow_move", "allow_rename", "partially_hidden"]
NAMES = ["a", "b", "c", "Ωμ", "x y", "a/b", "d.e", "", "名前", "a"]
PG_NAMES = ["pg1", "pg2", "pg3"]

MUTATORS = ["create_uid", "remove_many", "group", "object", "data", "values", "rename", "flag", "move", "copy", "remove", "pg_add",
            "pg_remove_props", "pg_delete", "metadata", "file", "comment", "visual", "visual_edit", "dhlog", "type_clash"]
CONTROL = ["reopen", "gc", "hold", "release", "observe"]


def diff_cond(a, b) -> str:
    """Discriminating tag for a value difference (keeps known-finding signatures narrow)."""
    if isinstance(a, list) and len(a) == 4 and a[0] == "arr" and a[2] == [1] and isinstance(b, str) and a[3] == [b]:
        return ":one-entry-array-vs-str"
    if (isinstance(a, list) and isinstance(b, list) and len(a) == 4 and len(b) == 4 and a[0] == b[0] == "arr"
            and len(a[3]) < len(b[3]) and b[3][:len(a[3])] == a[3] and len(set(map(str, b[3][len(a[3]):]))) == 1):
        return ":live-array-shorter-than-geometry"
    return ""


def protected(node) -> bool:
    """allow_delete switched off (after a re-open some classes give the flag back as 0 / 1 instead of a bool)."""
    flag = node.get("allow_delete")
    return flag is not None and not bool(flag)


class EntityLost(Exception):
    """An entity of the reference model is not found in the live workspace any more."""


class OpError(Exception):
    """A library exception on an operation that is valid by construction."""


# =============================================================================== strategy
def small_ints(min_size=0, max_size=12):
    return st.lists(st.integers(-9, 9), min_size=min_size, max_size=max_size)


def vals_strategy(max_size=14):
    return st.lists(st.one_of(st.integers(-20, 20), st.none()), min_size=0, max_size=max_size)


def geom_strategy():
    return st.fixed_dictionaries(
        {"n": st.integers(1, 7), "g": small_ints(1, 12)},
        optional={"cells": st.one_of(
            st.just("parts"),
            st.lists(st.tuples(st.integers(0, 6), st.integers(0, 6), st.integers(0, 6)), min_size=1, max_size=5)
            .map(lambda rows: [list(r) for r in rows]),
        )},
    )


def op_strategy(kind: str, cfg: dict):
    idx = st.integers(0, 30)
    name = st.sampled_from(NAMES)
    if kind == "group":
        return st.fixed_dictionaries({"op": st.just("group"), "cls": st.sampled_from(cfg["group_classes"]),
                                      "parent": idx, "name": name, "deferred": st.integers(0, 11).map(lambda v: v == 0)})
    if kind == "object":
        return st.fixed_dictionaries({"op": st.just("object"), "cls": st.sampled_from(cfg["object_classes"]),
                                      "parent": idx, "name": name, "geom": geom_strategy(),
                                      "deferred": st.integers(0, 11).map(lambda v: v == 0)})
    if kind == "data":
        return st.fixed_dictionaries(
            {"op": st.just("data"), "obj": idx, "kind": st.sampled_from(cfg["data_kinds"]),
             "assoc": st.sampled_from(F.ASSOCS), "vals": vals_strategy(), "name": name,
             "short": st.integers(0, 3)},
            optional={"pg": st.sampled_from(PG_NAMES)})
    if kind == "values":
        return st.fixed_dictionaries({"op": st.just("values"), "data": idx, "vals": vals_strategy(),
                                      "short": st.integers(0, 3)})
    if kind == "vertices":
        return st.fixed_dictionaries({"op": st.just("vertices"), "obj": idx, "shift": st.sampled_from([0.5, -1.0, 2.5]),
                                      "rows": st.sampled_from(["all", "first", "last"]),
                                      "how": st.sampled_from(["fresh", "inplace"])})
    if kind == "rename":
        return st.fixed_dictionaries({"op": st.just("rename"), "who": idx, "name": name})
    if kind == "flag":
        return st.fixed_dictionaries({"op": st.just("flag"), "who": idx, "flag": st.sampled_from(FLAGS),
                                      "value": st.booleans()})
    if kind == "move":
        return st.fixed_dictionaries({"op": st.just("move"), "who": idx, "to": idx})
    if kind == "copy":
        return st.fixed_dictionaries({"op": st.just("copy"), "who": idx, "to": st.one_of(st.none(), idx),
                                      "children": st.booleans(), "clear": st.booleans(),
                                      "ws": st.sampled_from([0, 0, 1]), "twice": st.sampled_from([False, False, True]),
                                      "again_after_remove": st.sampled_from([False, False, True]),
                                      "again_after_pg_delete": st.sampled_from([False, True])})
    if kind == "type_clash":
        return st.fixed_dictionaries({"op": st.just("type_clash"), "who": idx, "geom": geom_strategy()})
    if kind == "dhlog":
        return st.fixed_dictionaries({"op": st.just("dhlog"), "obj": idx, "name": name,
                                      "depths": st.lists(st.integers(0, 12), min_size=1, max_size=4, unique=True),
                                      "vals": small_ints(4, 4)})
    if kind == "visual_edit":
        return st.fixed_dictionaries({"op": st.just("visual_edit"), "obj": idx,
                                      "rgb": st.lists(st.integers(0, 255), min_size=3, max_size=3)})
    if kind == "visual":
        return st.fixed_dictionaries({"op": st.just("visual"), "obj": idx})
    if kind == "remove":
        return st.fixed_dictionaries({"op": st.just("remove"), "who": idx,
                                      "via": st.sampled_from(["ws", "parent"]), "ws": st.sampled_from([0, 0, 0, 1]),
                                      "protect": st.integers(0, 4).map(lambda v: v == 0),
                                      # the caller never holds the entity: it is fetched inside the call
                                      "noref": st.booleans()})
    if kind == "remove_many":
        return st.fixed_dictionaries({"op": st.just("remove_many"), "parent": idx,
                                      "who": st.lists(idx, min_size=2, max_size=3),
                                      # a group is emptied with its own child list: group.remove_children(group.children)
                                      "own_list": st.integers(0, 3).map(lambda v: v == 0)})
    if kind == "pg_add":
        return st.fixed_dictionaries({"op": st.just("pg_add"), "obj": idx,
                                      "data": st.lists(idx, min_size=1, max_size=3),
                                      "name": st.sampled_from(PG_NAMES)})
    if kind == "pg_remove_props":
        return st.fixed_dictionaries({"op": st.just("pg_remove_props"), "pg": idx,
                                      "data": st.lists(idx, min_size=1, max_size=4)})
    if kind == "pg_delete":
        return st.fixed_dictionaries({"op": st.just("pg_delete"), "pg": idx})
    if kind == "metadata":
        return st.fixed_dictionaries({"op": st.just("metadata"), "who": idx,
                                      "value": st.dictionaries(st.sampled_from(["k1", "k2", "K 3"]),
                                                               st.one_of(st.integers(-5, 5), st.sampled_from(NAMES)),
                                                               min_size=1, max_size=2)})
    if kind == "file":
        return st.fixed_dictionaries({"op": st.just("file"), "who": idx, "blob": small_ints(1, 8),
                                      "name": st.sampled_from(["f.dat", "g.bin"])})
    if kind == "comment":
        return st.fixed_dictionaries({"op": st.just("comment"), "who": idx, "text": name})
    if kind == "create_uid":
        return st.fixed_dictionaries({"op": st.just("create_uid"), "kind": st.sampled_from(["group", "object", "data", "pg"]),
                                      "source": st.sampled_from(["fresh", "live_same", "live_other", "removed", "live_same"]),
                                      "who": idx, "parent": idx, "name": name,
                                      "form": st.sampled_from(["uuid", "uuid", "str", "braced"])})
    if kind == "reopen":
        return st.fixed_dictionaries({"op": st.just("reopen"), "same": st.sampled_from([False, False, True])})
    if kind in ("gc", "release", "observe"):
        return st.just({"op": kind})
    if kind == "hold":
        return st.fixed_dictionaries({"op": st.just("hold"), "who": idx})
    raise ValueError(kind)


DEFAULT_CFG = {
    "max_ops": 25,
    "group_classes": ["ContainerGroup", "SimPEGGroup", "UIJsonGroup", "NoTypeGroup", "ContainerGroup", "DrillholeGroup"],
    "object_classes": F.CORE_OBJECT_CLASSES,
    "data_kinds": ["float", "int", "bool", "ref", "text"],
    "weights": {"group": 3, "object": 5, "data": 6, "values": 3, "vertices": 1, "rename": 2, "flag": 2, "move": 4, "copy": 4,
                "remove": 4, "pg_add": 4, "pg_remove_props": 2, "pg_delete": 1, "metadata": 1, "file": 1,
                "comment": 1, "visual": 1, "visual_edit": 1, "dhlog": 1, "type_clash": 0, "create_uid": 1, "remove_many": 1, "reopen": 3, "gc": 2, "hold": 1, "release": 1, "observe": 1},
    "ws2": True,
    "prefix": [],
    "prefixes": [],
}


@st.composite
def program_strategy(draw, cfg=None):
    cfg = {**DEFAULT_CFG, **(cfg or {})}
    weights = dict(cfg["weights"])
    kinds = [k for k, w in weights.items() if w > 0]
    # swarm: drop a random subset of optional operation kinds
    droppable = [k for k in kinds if k not in ("group", "object", "data")]
    dropped = draw(st.sets(st.sampled_from(droppable), max_size=max(0, len(droppable) - 2))) if draw(st.booleans()) else set()
    kinds = [k for k in kinds if k not in dropped]
    pool = [k for k in kinds for _ in range(weights[k])]
    n_ops = draw(st.integers(1, cfg["max_ops"]))
    ops = list(cfg["prefix"])
    if cfg.get("prefixes"):
        ops += list(draw(st.sampled_from(cfg["prefixes"])))
    # a short constructive prefix so that most programs have something to work on
    n_seed = draw(st.integers(0, 3))
    for kind in ["object", "data", "group"][:n_seed]:
        ops.append(draw(op_strategy(kind, cfg)))
    for _ in range(n_ops):
        kind = draw(st.sampled_from(pool))
        ops.append(draw(op_strategy(kind, cfg)))
    return {
        "ops": ops,
        "observe": draw(st.sampled_from(["every", "every", "reopen"])),
        "ws2": bool(cfg["ws2"]) and draw(st.booleans()),
        "allow_known": draw(st.integers(0, 9)) == 0,
        "version": draw(st.sampled_from([2.1, 2.1, 2.0, 1.0])),
    }


# =============================================================================== interpreter
class World:
    """One workspace + its reference model."""

    def __init__(self, tag, version):
        from geoh5py.workspace import Workspace

        self.tag = tag
        self.path = env.new_path(tag)
        self.ws = Workspace.create(self.path, version=version)
        self.nodes: dict = {}  # uid(str) -> node (apisnap format); insertion order = creation order
        self.kind: dict = {}  # uid -> "group" | "object" | "data"
        self.onfile_since: dict = {}  # uid -> op index at which it was stored
        root = self.ws.root
        self.root = str(root.uid)
        self.nodes[self.root] = snap_entity(root)
        self.kind[self.root] = "group"

    def entity(self, uid: str):
        ent = self.ws.get_entity(uuid.UUID(uid))[0]
        if ent is None and uid in self.nodes:
            raise EntityLost(uid, self.nodes[uid].get("cls", "?"))
        return ent

    def of_kind(self, *kinds):
        return [u for u in self.nodes if self.kind[u] in kinds]

    def containers(self):
        """Groups that can receive ordinary groups / objects (drillhole groups take only concatenated holes)."""
        return [u for u in self.of_kind("group") if "Drillhole" not in self.nodes[u]["cls"]]

    def descendants(self, uid):
        out = []
        stack = [uid]
        while stack:
            cur = stack.pop()
            for child in self.nodes[cur].get("children", []):
                if child in self.nodes:
                    out.append(child)
                    stack.append(child)
        return out

    def drop(self, uid):
        """Remove uid and its subtree from the model, scrub property groups."""
        gone = [uid] + self.descendants(uid)
        parent = self.nodes[uid]["parent"]
        for g in gone:
            self.nodes.pop(g, None)
            self.kind.pop(g, None)
        if parent in self.nodes:
            pnode = self.nodes[parent]
            pnode["children"] = sorted(c for c in pnode["children"] if c != uid)
            pnode["n_child_entries"] = len(pnode["children"])
            self.scrub_pgs(parent, [uid])
        return gone

    def scrub_pgs(self, obj_uid, data_uids):
        pgs = self.nodes[obj_uid].get("pgs")
        if not pgs:
            return
        for pg_uid in list(pgs):
            props = [p for p in pgs[pg_uid]["props"] if p not in data_uids]
            if len(props) != len(pgs[pg_uid]["props"]):
                if props:
                    pgs[pg_uid]["props"] = props
                else:
                    del pgs[pg_uid]

    def adopt(self, uid, node, kind):
        self.nodes[uid] = node
        self.kind[uid] = kind
        parent = node["parent"]
        if parent in self.nodes:
            pnode = self.nodes[parent]
            if uid not in pnode["children"]:
                pnode["children"] = sorted(pnode["children"] + [uid])
                pnode["n_child_entries"] = len(pnode["children"])


class TreeRun:
    def __init__(self, program: dict, res, props: set, opts: dict | None = None):
        self.program = program
        self.res = res
        self.props = props
        self.opts = opts or {}
        self.held: list = []
        self.worlds: list = []
        self.step = -1
        self.stopped = False
        self.removed: dict = {}  # uid -> (class, entry point, absence-check mode) for C05 clauses
        self.lazy_trigger_used = False
        self.removed_via: dict = {}  # (workspace tag, uid) -> entry point (a cross copy keeps the uid: one entry per file)
        self.removed_names: dict = {}
        self.stats = {"effective": 0, "kinds": set(), "reopens": 0, "onfile_mutations": 0,
                      "op_errors": 0, "removals_rich": 0, "copies": 0, "cross_copies": 0, "moves": 0}
        self.since_reopen_mut = False
        self.mut_before_reopen = False
        self.targets: set = set()  # entities the current operation is applied to (C09)
        self.parents: set = set()  # parents whose child list / property groups may change (C09)

    # ------------------------------------------------------------------ helpers
    def fail(self, prop, clause, op, cls, cond, msg):
        if prop in self.props:
            self.res.fail(f"{prop}/{clause}/{op}/{cls}/{cond}", f"step {self.step}: {msg}")
            self.stopped = True

    def pick(self, cands, index):
        if not cands:
            return None
        return cands[index % len(cands)]

    @property
    def w(self) -> World:
        return self.worlds[0]

    # ------------------------------------------------------------------ main loop
    def execute(self):
        try:
            self.setup()
            self.run_ops(0, len(self.program["ops"]))
            if not self.stopped:
                self.step = len(self.program["ops"])
                self.do_reopen(final=True)
        finally:
            self.shutdown()
        return self.stats

    def setup(self):
        version = self.program.get("version", 2.1)
        self.worlds.append(World("w1", version))
        if self.program.get("ws2"):
            self.worlds.append(World("w2", version))

    def run_ops(self, start, stop):
        for i in range(start, stop):
            if self.stopped or getattr(self, "truncated", False):
                break
            self.step = i
            self.run_op(self.program["ops"][i])

    def shutdown(self):
        self.held.clear()
        for world in self.worlds:
            env.close_quietly(world.ws)
        self.worlds_done = True

    def run_op(self, op):
        kind = op["op"]
        handler = getattr(self, "op_" + kind)
        pre_hook = self.opts.get("pre_op")
        post_hook = self.opts.get("post_op")
        self.targets, self.parents = set(), set()
        if kind in MUTATORS and pre_hook:
            pre_hook(self, op)
        if kind in MUTATORS and "C09" in self.props:
            self.iso_before = [(set(wd.nodes), node_digests(rawsnap(wd.ws.geoh5))) for wd in self.worlds]
        try:
            effective = handler(op)
        except EntityLost as exc:
            # the library lost track of an entity that nothing removed: a verdict, not a harness fault
            uid, cls = exc.args
            self.fail("C01", "entity-lost-live", kind, cls, "", f"{cls} {uid} of the model is not found in the live workspace any more")
            self.fail("C06", "lookup-misses-owner", kind, cls, "", f"get_entity({uid}) returns nothing although the {cls} was never removed")
            self.res.label("entity-lost-live")
            self.stopped = True
            if "C02" in self.props:
                # the file written so far is still a file the library wrote: close it and look at it
                self.stopped = False
                self.truncated = True
            return
        except OpError as exc:
            self.stats["op_errors"] += 1
            self.res.count("op_errors")
            cause = exc.__cause__
            detail = f"{type(cause).__name__}: {cause}"
            self.res.label("op_error:" + kind + ":" + (exc.args[0] if exc.args else "?") + ":" + detail[:70])
            label = exc.args[0] if exc.args else "?"
            if "C05" in self.props and self.removed:
                # "later operations on the survivors succeed"
                self.fail("C05", "later-op-fails", kind, label, type(cause).__name__, detail)
            if "C06" in self.props and kind in ("group", "object", "data", "copy"):
                self.fail("C06", "fresh-creation-fails", kind, label, type(cause).__name__, detail)
            if "C12" in self.props and kind == "copy":
                self.fail("C12", "copy-raises", kind, label, type(cause).__name__, detail)
            # the state after a failed operation is not claimed by the property: stop here
            self.stopped = True
            return
        if effective:
            self.stats["effective"] += 1
            self.stats["kinds"].add(kind)
            if kind in MUTATORS:
                self.since_reopen_mut = True
                if post_hook:
                    post_hook(self, op)
                if "C09" in self.props:
                    self.check_isolation(kind)
            if self.program.get("observe") == "every" and kind in MUTATORS:
                self.observe(kind)
            if kind in MUTATORS and not self.stopped:
                for wd in self.worlds:
                    self.check_uid_invariants(wd, kind)

    # ------------------------------------------------------------------ observation
    def observe(self, opkind, world=None):
        for wd in ([world] if world else self.worlds):
            live = apisnap(wd.ws)
            self.compare_model(wd, live, opkind)
            if self.stopped:
                return

    def compare_model(self, wd: World, live, opkind, where="live"):
        if live["dups"]:
            self.fail("C01", "duplicated-in-tree", opkind, wd.nodes.get(live["dups"][0], {}).get("cls", "?"), where,
                      f"entity reached twice walking the tree: {live['dups']}")
        for uid, listed in (live.get("pg_children") or {}).items():
            node = live["nodes"].get(uid) or {}
            if isinstance(node.get("pgs"), dict) and listed != sorted(node["pgs"]):
                for prop in ("C01", "C05"):
                    self.fail(prop, "child-list-vs-property-groups", opkind, node.get("cls", "?"), where,
                              f"{node.get('cls')} {uid}: children hold property groups {listed}, "
                              f"property_groups gives {sorted(node['pgs'])}")
                break
        diffs = diff_nodes(wd.nodes, live["nodes"])
        for uid, field, a, b in diffs:
            cls = (wd.nodes.get(uid) or live["nodes"].get(uid) or {}).get("cls", "?")
            if field == "<missing-in-second>":
                self.fail("C01", "lost", opkind, cls, where, f"{cls} {uid} expected by the model is not in the {where} tree")
            elif field == "<missing-in-first>":
                self.fail("C01", "resurrected-or-extra", opkind, cls, where,
                          f"{cls} {uid} is in the {where} tree but not in the model")
            else:
                self.fail("C01", "field-differs", opkind, cls, f"{field}{diff_cond(a, b)}@{where}",
                          f"{cls} {uid} field {field}: model={a!r} {where}={b!r}")
            if self.stopped:
                return
        # listings: each uid once, nothing dead
        lst = live.get("listings")
        if lst:
            for name in ("groups", "objects", "data", "property_groups", "types"):
                uids = lst[name]
                if isinstance(uids, str):
                    for prop in ("C01", "C05"):
                        self.fail(prop, "listing-raises", opkind, name, where, f"workspace.{name} raised {uids}")
                    continue
                if len(uids) != len(set(uids)):
                    self.fail("C01", "listing-duplicate", opkind, name, where, f"{name} lists a uid twice")
                if "C06" in self.props and len(uids) != len(set(uids)):
                    self.fail("C06", "listing-duplicate", opkind, name, where, f"{name} lists a uid twice")

    # ------------------------------------------------------------------ reopen
    def op_reopen(self, op):
        self.do_reopen(final=False, same=bool(op.get("same")))
        return True

    def do_reopen(self, final, same=False):
        from geoh5py.workspace import Workspace

        self.held.clear()
        self.stats["reopens"] += 1
        if self.since_reopen_mut:
            self.mut_before_reopen = True
        for wd in self.worlds:
            before = apisnap(wd.ws, with_listings=False)
            pre_close = self.opts.get("pre_close")
            if pre_close:
                pre_close(self, wd)
            wd.ws.close()
            gc.collect()
            if "C02" in self.props:
                snap = rawsnap(str(wd.path))
                for clause, detail in check_valid(snap):
                    cond = "final" if final else "mid"
                    hit = [g for g, (_c, via, _m) in self.removed.items() if g in detail and g not in wd.nodes]
                    if hit:
                        cond += ":node-removed-via-" + self.removed_via.get((wd.tag, hit[0]), self.removed[hit[0]][1])
                    self.fail("C02", clause, "close", "file", cond, detail)
                    break
            if "C05" in self.props and wd is self.worlds[0] and self.removed:
                self.check_raw_absent(wd)
            if same:
                wd.ws.open()  # close() / open() on the same Workspace object
                fresh = wd.ws
                self.res.label("reopen:same-object")
            else:
                fresh = Workspace(wd.path)
            wd.ws = fresh
            after = apisnap(fresh, with_listings=True)
            # (1) round trip: what the live workspace showed == what a fresh opening yields
            for uid, field, a, b in diff_nodes(before["nodes"], after["nodes"]):
                cls = (before["nodes"].get(uid) or after["nodes"].get(uid) or {}).get("cls", "?")
                if field == "<missing-in-second>":
                    self.fail("C01", "roundtrip-lost", "reopen", cls, "", f"{cls} {uid} shown live is missing after re-open")
                elif field == "<missing-in-first>":
                    self.fail("C01", "roundtrip-resurrected", "reopen", cls, "",
                              f"{cls} {uid} not in the live tree appears after re-open")
                else:
                    self.fail("C01", "roundtrip-differs", "reopen", cls, field + diff_cond(a, b),
                              f"{cls} {uid} {field}: live={a!r} reopened={b!r}")
                if self.stopped:
                    return
            # (2)/(3) fresh tree == model
            self.compare_model(wd, after, "reopen", where="reopened")
            if self.stopped:
                return
            if "C05" in self.props and wd is self.worlds[0] and self.removed:
                gone_now = [g for g in self.removed if g not in wd.nodes]
                self.check_absent(wd, gone_now, "reopen", "any", where="reopened", lookup_first=False)
                if self.stopped:
                    return
            post_reopen = self.opts.get("post_reopen")
            if post_reopen:
                post_reopen(self, wd)
        self.since_reopen_mut = False

    def op_gc(self, op):
        gc.collect()
        return True

    def op_observe(self, op):
        self.observe("observe")
        return True

    def op_hold(self, op):
        uid = self.pick(list(self.w.nodes), op["who"])
        ent = self.w.entity(uid)
        if ent is not None:
            self.held.append(ent)
        return True

    def op_release(self, op):
        self.held.clear()
        return True

    # ------------------------------------------------------------------ creation
    def call(self, label, fn, *args, **kwargs):
        try:
            return fn(*args, **kwargs)
        except Exception as exc:  # library exception on a valid-by-construction operation
            raise OpError(label) from exc

    def op_group(self, op):
        wd = self.w
        parent_uid = self.pick(wd.containers(), op["parent"])
        parent = wd.entity(parent_uid)
        cls = F.get_class(op["cls"])
        self.parents.add(parent_uid)
        deferred = bool(op.get("deferred")) and self.opts.get("deferred_creation", True)
        if deferred:
            new = self.call(op["cls"], wd.ws.create_entity, cls, save_on_creation=False,
                            entity={"parent": parent, "name": op["name"]})
        else:
            new = self.call(op["cls"], cls.create, wd.ws, parent=parent, name=op["name"])
        uid = str(new.uid)
        node = snap_entity(new)
        self.check_created(wd, uid, node, op["cls"], parent_uid, op["name"], "group")
        wd.adopt(uid, node, "group")
        if deferred and op.get("deferred_child", True) and "Drillhole" not in op["cls"]:
            # the group that is not on file yet receives an ordinary child before the close writes both
            from geoh5py.objects import Points

            child = self.call("Points", Points.create, wd.ws, parent=new, name="in deferred", vertices=np.zeros((2, 3)))
            cnode = snap_entity(child)
            self.check_created(wd, str(child.uid), cnode, "Points", uid, "in deferred", "object")
            wd.adopt(str(child.uid), cnode, "object")
            self.res.label("child-of-deferred-group")
            del child
        del new, parent
        if deferred:
            self.flush_deferred()
        return True

    def flush_deferred(self):
        """An entity created with save_on_creation=False is written when the workspace closes: close and re-open
        right away (no other operation is offered an entity that is not on file yet)."""
        self.res.label("created-deferred-then-closed")
        self.since_reopen_mut = True
        self.do_reopen(final=False)

    def check_created(self, wd, uid, node, cls_name, parent_uid, name, opkind):
        if uid in wd.nodes:
            self.fail("C06", "fresh-uid-collides", opkind, cls_name, "", f"new entity got uid {uid} already in use")
            self.fail("C01", "fresh-uid-collides", opkind, cls_name, "", f"new entity got uid {uid} already in use")
        if not node["cls"].endswith(cls_name):
            self.fail("C01", "created-class", opkind, cls_name, "", f"asked {cls_name}, got {node['cls']}")
        if node["parent"] != parent_uid:
            self.fail("C01", "created-parent", opkind, cls_name, "", f"asked parent {parent_uid}, got {node['parent']}")
        if name is not None and node.get("name") != name:
            self.fail("C01", "created-name", opkind, cls_name, "", f"asked name {name!r}, got {node.get('name')!r}")

    def op_create_uid(self, op):
        """Creation with a caller-supplied identifier (C06)."""
        wd = self.w
        kind = op["kind"]
        source = op["source"]
        if kind == "pg":
            return self.create_pg_uid(op)
        same = wd.of_kind(kind)
        other = [u for u in wd.nodes if wd.kind[u] != kind]
        freed = [g for g in self.removed if g not in wd.nodes]
        if source == "live_same" and [u for u in same if u != wd.root]:
            uid = self.pick([u for u in same if u != wd.root], op["who"])
        elif source == "live_other" and other:
            uid = self.pick(other, op["who"])
        elif source == "removed" and freed:
            uid = self.pick(freed, op["who"])
        else:
            source = "fresh"
            uid = str(env.fresh_uid())
        taken = uid in wd.nodes
        if kind == "data":
            parent_uid = self.pick([o for o in wd.of_kind("object") if wd.nodes[o]["cls"] != "Drillhole"], op["parent"])
        else:
            parent_uid = self.pick(wd.containers(), op["parent"])
        if parent_uid is None:
            return False
        parent = wd.entity(parent_uid)
        before = apisnap(wd.ws)
        raw_before = node_digests(rawsnap(wd.ws.geoh5))
        self.parents.add(parent_uid)
        self.res.label("create_uid:" + source)
        form = op.get("form", "uuid")
        given = {"uuid": uuid.UUID(uid), "str": uid, "braced": "{" + uid + "}"}[form]  # all accepted spellings
        self.res.label("create_uid:form=" + form)
        raised = None
        new = None
        try:
            if kind == "group":
                new = F.get_class("ContainerGroup").create(wd.ws, parent=parent, name=op["name"], uid=given)
            elif kind == "object":
                new = F.get_class("Points").create(wd.ws, parent=parent, name=op["name"], uid=given,
                                                   vertices=np.zeros((2, 3)))
            else:
                new = parent.add_data({op["name"]: {"values": np.asarray([1.5]), "association": "OBJECT",
                                                    "uid": given}})
        except Exception as exc:
            # keep no reference to the exception: its traceback would keep the refused entity alive
            raised = (type(exc).__name__, str(exc)[:200])
        label = {"group": "ContainerGroup", "object": "Points", "data": "FloatData"}[kind]
        cond = source + (":" + wd.kind[uid] if taken else "")
        if taken:
            if raised is None:
                self.fail("C06", "taken-uid-accepted", "create_uid", label, cond,
                          f"creating a {kind} with uid {uid} owned by a live {wd.nodes[uid]['cls']} was accepted: two live entities share an identifier")
                return True
            del new, parent
            gc.collect()
            after = apisnap(wd.ws)
            diffs = diff_nodes(before["nodes"], after["nodes"])
            if diffs:
                u, f, a, b = diffs[0]
                self.fail("C06", "refusal-side-effect-tree", "create_uid", label, cond + ":" + str(f),
                          f"refused creation changed the live tree: {u} {f}: {a!r} -> {b!r}")
                return True
            if before["listings"] != after["listings"]:
                self.fail("C06", "refusal-side-effect-listing", "create_uid", label, cond,
                          f"refused creation changed the listings: {before['listings']} -> {after['listings']}")
                return True
            raw_after = node_digests(rawsnap(wd.ws.geoh5))
            if raw_before != raw_after:
                changed = sorted(str(k) for k in set(raw_before) ^ set(raw_after)) or sorted(
                    str(k) for k in raw_before if raw_before[k] != raw_after.get(k))
                self.fail("C06", "refusal-side-effect-file", "create_uid", label, cond,
                          f"refused creation changed the file: {changed[:4]}")
            return True
        if raised is not None:
            try:
                raise RuntimeError(f"{raised[0]}: {raised[1]}")
            except RuntimeError as exc:
                raise OpError(label) from exc
        nuid = str(new.uid)
        node = snap_entity(new)
        if nuid != uid:
            self.fail("C06", "supplied-uid-ignored", "create_uid", label, cond, f"asked uid {uid}, got {nuid}")
        if nuid in wd.nodes:
            self.fail("C06", "fresh-uid-collides", "create_uid", label, cond, f"uid {nuid} already in use")
            return True
        wd.adopt(nuid, node, kind)
        del new, parent
        return True

    def check_isolation(self, opkind):
        """C09: a single mutation changes only what the statement allows (per-node split digests)."""
        for wd, (uids_before, before) in zip(self.worlds, self.iso_before):
            after = node_digests(rawsnap(wd.ws.geoh5))
            uids_after = set(wd.nodes)
            brace = lambda u: "{" + u + "}"  # noqa: E731
            targets = {brace(u) for u in self.targets}
            parents = {brace(u) for u in self.parents}
            born = {brace(u) for u in uids_after - uids_before}
            died = {brace(u) for u in uids_before - uids_after}
            n_other = 0
            for key in sorted(set(before) | set(after), key=str):
                cname, uid = key
                is_type = cname.endswith("types")
                if key not in before:
                    if is_type or uid in born:
                        continue
                    self.fail("C09", "unrelated-node-created", opkind, cname, "", f"{cname}/{uid} appeared in the file")
                    return
                if key not in after:
                    if is_type or uid in died:
                        continue
                    cond = "lazy-purge-of-removed" if uid.strip("{}") in self.removed else ""
                    self.fail("C09", "unrelated-node-deleted", opkind, cname, cond, f"{cname}/{uid} disappeared from the file")
                    return
                if before[key] == after[key]:
                    n_other += 1
                    continue
                parts = sorted(p for p in before[key] if before[key][p] != after[key].get(p))
                if uid in targets or uid in born:
                    continue
                if uid in parents and set(parts) <= {"children", "pgs"}:
                    continue
                if cname == "header":
                    self.fail("C09", "header-changed", opkind, "header", ",".join(parts), f"project header changed: {before[key]} -> {after[key]}")
                    return
                if is_type:
                    self.fail("C09", "other-type-changed", opkind, cname, ",".join(parts),
                              f"type {uid} changed ({parts}): {before[key]} -> {after[key]}")
                    return
                cls = (wd.nodes.get(uid[1:-1]) or {}).get("cls", "?")
                self.fail("C09", "unrelated-entity-changed", opkind, cls, ",".join(parts),
                          f"{cname}/{uid} ({cls}) changed parts {parts}; targets={sorted(targets)} parents={sorted(parents)}")
                return
            self.res.count("untouched_nodes_compared", n_other)

    def create_pg_uid(self, op):
        """A property group created under a caller-supplied identifier (fresh / owned by another property group /
        owned by an entity)."""
        wd = self.w
        objs = [o for o in wd.of_kind("object") if wd.nodes[o]["cls"] != "Drillhole"]
        obj_uid = self.pick(objs, op["parent"])
        if obj_uid is None:
            return False
        all_pgs = [u for o in wd.of_kind("object") for u in (wd.nodes[o].get("pgs") or {})]
        source = op["source"]
        if source in ("live_same",) and all_pgs:
            uid = self.pick(all_pgs, op["who"])
        elif source == "live_other":
            uid = self.pick([u for u in wd.nodes if u != wd.root], op["who"])
        else:
            source, uid = "fresh", str(env.fresh_uid())
        if uid is None:
            source, uid = "fresh", str(env.fresh_uid())
        taken = uid in wd.nodes or uid in all_pgs
        obj = wd.entity(obj_uid)
        name = f"cu{self.step}"
        before = apisnap(wd.ws)
        raw_before = node_digests(rawsnap(wd.ws.geoh5))
        self.targets.add(obj_uid)
        self.res.label("create_uid:pg:" + source)
        raised = None
        try:
            obj.create_property_group(name=name, uid=uuid.UUID(uid))
        except Exception as exc:
            raised = (type(exc).__name__, str(exc)[:200])
        cond = "pg:" + source
        if taken:
            if raised is None:
                self.fail("C06", "taken-uid-accepted", "create_uid", "PropertyGroup", cond,
                          f"a property group was created with uid {uid} which a live {'property group' if uid in all_pgs else wd.nodes[uid]['cls']} owns")
                return True
            del obj
            gc.collect()
            after = apisnap(wd.ws)
            diffs = diff_nodes(before["nodes"], after["nodes"])
            if diffs:
                u, f, a, b = diffs[0]
                self.fail("C06", "refusal-side-effect-tree", "create_uid", "PropertyGroup", cond + ":" + str(f),
                          f"refused creation changed the live tree: {u} {f}: {a!r:.150} -> {b!r:.150}")
                return True
            if before["listings"] != after["listings"]:
                self.fail("C06", "refusal-side-effect-listing", "create_uid", "PropertyGroup", cond, "refused creation changed the listings")
                return True
            if raw_before != node_digests(rawsnap(wd.ws.geoh5)):
                self.fail("C06", "refusal-side-effect-file", "create_uid", "PropertyGroup", cond, "refused creation changed the file")
            return True
        if raised is not None:
            try:
                raise RuntimeError(f"{raised[0]}: {raised[1]}")
            except RuntimeError as exc:
                raise OpError("PropertyGroup") from exc
        live = snap_entity(obj).get("pgs") or {}
        if uid not in live:
            self.fail("C06", "supplied-uid-ignored", "create_uid", "PropertyGroup", cond, f"asked uid {uid}, groups are {list(live)}")
            return True
        if wd.nodes[obj_uid].get("pgs") is None:
            wd.nodes[obj_uid]["pgs"] = {}
        wd.nodes[obj_uid]["pgs"][uid] = live[uid]
        del obj
        return True

    def check_uid_invariants(self, wd, opkind):
        """C06 invariants over the live workspace."""
        if "C06" not in self.props:
            return
        seen: dict = {}
        for listing in ("groups", "objects", "data", "property_groups"):
            for ent in getattr(wd.ws, listing):
                key = str(ent.uid)
                if key in seen:
                    self.fail("C06", "uid-shared", opkind, type(ent).__name__, f"{seen[key]}+{listing}",
                              f"uid {key} is owned by an entity in {seen[key]} and one in {listing}")
                    return
                seen[key] = listing
        tseen = set()
        for etype in wd.ws.types:
            if str(etype.uid) in tseen:
                self.fail("C06", "type-uid-shared", opkind, type(etype).__name__, "", f"two types share uid {etype.uid}")
                return
            tseen.add(str(etype.uid))
        for uid, node in wd.nodes.items():
            ent = wd.ws.get_entity(uuid.UUID(uid))
            if len(ent) != 1 or ent[0] is None or not type(ent[0]).__name__.endswith(node["cls"]):
                self.fail("C06", "lookup-wrong-owner", opkind, node["cls"], "",
                          f"get_entity({uid}) -> {[type(e).__name__ for e in ent]} but the owner is a {node['cls']}")
                return
        # one type per object / group class
        per_class: dict = {}
        for uid, node in wd.nodes.items():
            if wd.kind[uid] in ("group", "object") and isinstance(node.get("type"), dict) and node["cls"] != "CustomGroup":
                per_class.setdefault(node["cls"], set()).add(node["type"]["uid"])
        for cls, uids in per_class.items():
            if len(uids) > 1:
                self.fail("C06", "class-with-several-types", opkind, cls, "", f"entities of class {cls} use types {sorted(uids)}")
        # ... and it is one type OBJECT (two live types with one identifier are two types sharing an identifier)
        type_objects: dict = {}
        for uid, node in wd.nodes.items():
            if wd.kind[uid] in ("group", "object") and node["cls"] != "CustomGroup":
                ent = wd.ws.get_entity(uuid.UUID(uid))[0]
                if ent is not None:
                    type_objects.setdefault(node["cls"], set()).add(id(ent.entity_type))
        for cls, ids in type_objects.items():
            if len(ids) > 1:
                self.fail("C06", "type-uid-shared", opkind, cls, "two-live-type-objects",
                          f"the live entities of class {cls} hold {len(ids)} different type objects")
                return

    def op_object(self, op):
        wd = self.w
        parent_uid = self.pick(wd.containers(), op["parent"])
        parent = wd.entity(parent_uid)
        cls = F.get_class(op["cls"])
        kwargs = F.object_kwargs(op["cls"], op["geom"])
        given = {k: (v.copy() if isinstance(v, np.ndarray) else v) for k, v in kwargs.items()}
        self.parents.add(parent_uid)
        deferred = bool(op.get("deferred")) and self.opts.get("deferred_creation", True)
        if deferred:
            new = self.call(op["cls"], wd.ws.create_entity, cls, save_on_creation=False,
                            entity={"parent": parent, "name": op["name"], **kwargs})
        else:
            new = self.call(op["cls"], cls.create, wd.ws, parent=parent, name=op["name"], **kwargs)
        uid = str(new.uid)
        node = snap_entity(new)
        self.check_created(wd, uid, node, op["cls"], parent_uid, op["name"], "object")
        for key in ("vertices", "cells"):
            if key in given and isinstance(given[key], np.ndarray):
                got = getattr(new, key)
                if got is None or got.shape != given[key].shape or not np.array_equal(np.asarray(got, dtype=float), np.asarray(given[key], dtype=float)):
                    self.fail("C01", "created-geometry", "object", op["cls"], key, f"{key} given {given[key].tolist()} got {None if got is None else got.tolist()}")
        wd.adopt(uid, node, "object")
        for child in getattr(new, "children", []):
            # children the constructor itself creates (the file data of a GeoImage)
            if hasattr(child, "entity_type") and str(child.uid) not in wd.nodes:
                wd.adopt(str(child.uid), snap_entity(child), "data")
        del new, parent
        if deferred:
            self.flush_deferred()
        return True

    def element_count(self, wd, obj_uid, assoc):
        node = wd.nodes[obj_uid]
        if assoc == "VERTEX":
            return node.get("n_vertices")
        if assoc == "CELL":
            return node.get("n_cells")
        return 1

    def op_data(self, op):
        wd = self.w
        obj_uid = self.pick(wd.of_kind("object"), op["obj"])
        if obj_uid is None:
            return False
        obj = wd.entity(obj_uid)
        assoc = op["assoc"]
        name = op["name"]
        if wd.nodes[obj_uid]["cls"] == "Drillhole":
            assoc = "OBJECT"  # depth / interval data of plain drillholes are owned by C18
            taken = {wd.nodes[c].get("name") for c in wd.nodes[obj_uid]["children"] if c in wd.nodes}
            while name in taken:  # drillholes refuse duplicate data names (documented)
                name += "_"
        count = self.element_count(wd, obj_uid, assoc)
        if count is None or count == 0:
            assoc, count = "OBJECT", 1
        kind = op["kind"]
        n_given = max(0, count - op.get("short", 0))
        if kind == "text" and n_given == 0:
            n_given = count
        if kind == "text" and n_given == 1 and assoc == "OBJECT" and not self.program.get("allow_known"):
            # known finding C01: a one-entry text array on OBJECT association reads back as a bare string
            self.res.count("excluded_by_finding")
            kind = "float"
        vals = (list(op["vals"]) + [None] * count)[:n_given]
        arr, expected = F.make_values(kind, vals, count)
        if kind == "text":
            expected = [("" if v is None else f"s{v}") for v in vals]  # text arrays are stored as given (no padding rule)
        spec = F.data_spec(kind, assoc, arr)
        self.parents.add(obj_uid)
        if "pg" in op and assoc != "OBJECT":
            new = self.call(kind, obj.add_data, {name: spec}, property_group=op["pg"])
        else:
            new = self.call(kind, obj.add_data, {name: spec})
        uid = str(new.uid)
        node = snap_entity(new)
        self.check_created(wd, uid, node, F.KIND_CLASS[kind], obj_uid, name, "data")
        got = node.get("values")
        want = ["arr", F.KIND_DTYPE[kind], [len(expected)], expected]
        if got != want:
            self.fail("C01", "created-values", "data", F.KIND_CLASS[kind], assoc, f"given {vals} expected {want} got {got}")
        if node.get("association") != "enum:" + assoc:
            self.fail("C01", "created-association", "data", F.KIND_CLASS[kind], assoc, f"got {node.get('association')}")
        wd.adopt(uid, node, "data")
        if "pg" in op and assoc != "OBJECT":
            self.sync_pgs(wd, obj_uid, obj, expect_member=(op["pg"], uid, assoc), opkind="data")
        del new, obj
        return True

    def sync_pgs(self, wd, obj_uid, obj, expect_member, opkind):
        """Property groups of `obj` after an addition: membership is predicted, uid/type observed."""
        name, data_uid, assoc = expect_member
        live = snap_entity(obj).get("pgs") or {}
        if wd.nodes[obj_uid].get("pgs") is None:
            wd.nodes[obj_uid]["pgs"] = {}
        model = wd.nodes[obj_uid]["pgs"]
        target = [u for u, pg in model.items() if pg["name"] == name]
        if target:
            pg = model[target[0]]
            if data_uid not in pg["props"]:
                pg["props"] = pg["props"] + [data_uid]
        else:
            new_uids = [u for u in live if u not in model]
            if len(new_uids) != 1:
                self.fail("C01", "pg-not-created", opkind, "PropertyGroup", "", f"expected one new property group {name!r}, live has {list(live)} model {list(model)}")
                return
            model[new_uids[0]] = {"name": name, "association": "enum:" + assoc,
                                  "type": live[new_uids[0]]["type"], "props": [data_uid]}
        wd.nodes[obj_uid]["pgs"] = model

    def op_values(self, op):
        wd = self.w
        # (depth logs of plain drillholes follow their DEPTH data - re-sorting, padding: C18's subject - not assigned here)
        cands = [u for u in wd.of_kind("data") if wd.nodes[u]["cls"] in
                 ("FloatData", "IntegerData", "BooleanData", "ReferencedData", "TextData")
                 and not (wd.nodes.get(wd.nodes[u]["parent"], {}).get("cls") == "Drillhole"
                          and wd.nodes[u]["association"].split(":")[1] in ("VERTEX", "CELL"))]
        uid = self.pick(cands, op["data"])
        if uid is None:
            return False
        node = wd.nodes[uid]
        kind = {v: k for k, v in F.KIND_CLASS.items()}[node["cls"]]
        assoc = node["association"].split(":")[1]
        count = self.element_count(wd, node["parent"], assoc) or 1
        if kind == "text" and isinstance(node.get("values"), str):
            return False
        n_given = max(0, count - op.get("short", 0))
        if kind == "text":
            n_given = max(n_given, 1)
            if n_given == 1 and not self.program.get("allow_known"):
                self.res.count("excluded_by_finding")
                return False
        vals = (list(op["vals"]) + [None] * count)[:n_given]
        arr, expected = F.make_values(kind, vals, count)
        if kind == "text":
            expected = [("" if v is None else f"s{v}") for v in vals]  # stored as given
        ent = wd.entity(uid)
        onfile = ent.on_file
        self.targets.add(uid)
        try:
            ent.values = arr
        except Exception as exc:
            raise OpError(node["cls"]) from exc
        node["values"] = ["arr", F.KIND_DTYPE[kind], [len(expected)], expected]
        self.touch(onfile)
        del ent
        return True

    def op_vertices(self, op):
        """Coordinates of a point / cell object replaced (same count): by a new array, or by the array the getter
        returned, edited in place and assigned back."""
        from ..apisnap import canon_value

        wd = self.w
        cands = [u for u in wd.of_kind("object") if wd.nodes[u]["cls"] in ("Points", "Curve", "Surface")
                 and isinstance(wd.nodes[u].get("vertices"), list)]
        uid = self.pick(cands, op["obj"])
        if uid is None:
            return False
        ent = wd.entity(uid)
        onfile = ent.on_file
        self.targets.add(uid)
        try:
            current = ent.vertices
            rows = slice(None) if op["rows"] == "all" else slice(0, 1) if op["rows"] == "first" else slice(-1, None)
            expected = np.array(current, dtype=float)
            expected[rows] += op["shift"]
            if op["how"] == "inplace":
                current[rows] += op["shift"]
                ent.vertices = current
            else:
                ent.vertices = expected.copy()
        except Exception as exc:
            raise OpError(wd.nodes[uid]["cls"]) from exc
        wd.nodes[uid]["vertices"] = canon_value(expected)
        self.touch(onfile)
        del ent, current
        return True

    def touch(self, onfile=True):
        if onfile:
            self.stats["onfile_mutations"] += 1

    def op_rename(self, op):
        wd = self.w
        # the name "UserComments" IS the type marker of comments in the format: not renamed
        cands = [u for u in wd.nodes if u != wd.root and wd.nodes[u]["cls"] not in ("CommentsData", "VisualParameters")]
        uid = self.pick(cands, op["who"])
        if uid is None:
            return False
        ent = wd.entity(uid)
        self.targets.add(uid)
        self.call(wd.nodes[uid]["cls"], setattr, ent, "name", op["name"])
        wd.nodes[uid]["name"] = op["name"]
        self.touch()
        del ent
        return True

    def op_flag(self, op):
        wd = self.w
        cands = [u for u in wd.nodes if u != wd.root]
        uid = self.pick(cands, op["who"])
        if uid is None:
            return False
        ent = wd.entity(uid)
        self.targets.add(uid)
        self.call(wd.nodes[uid]["cls"], setattr, ent, op["flag"], op["value"])
        wd.nodes[uid][op["flag"]] = op["value"]
        self.touch()
        del ent
        return True

    def op_metadata(self, op):
        wd = self.w
        cands = [u for u in wd.nodes if u != wd.root and wd.kind[u] in ("group", "object")
                 and wd.nodes[u]["cls"] in ("Points", "Curve", "Surface", "Grid2D", "BlockModel", "Octree",
                                            "ContainerGroup", "NoTypeGroup", "Label", "NoTypeObject", "DrapeModel")]
        uid = self.pick(cands, op["who"])
        if uid is None:
            return False
        ent = wd.entity(uid)
        self.targets.add(uid)
        self.call(wd.nodes[uid]["cls"], setattr, ent, "metadata", dict(op["value"]))
        cur = wd.nodes[uid].get("metadata")
        merged = dict(cur) if isinstance(cur, dict) else {}
        merged.update({str(k): v for k, v in op["value"].items()})
        wd.nodes[uid]["metadata"] = merged
        self.touch()
        del ent
        return True

    def op_file(self, op):
        wd = self.w
        cands = [u for u in wd.nodes if u != wd.root and wd.kind[u] in ("group", "object")]
        uid = self.pick(cands, op["who"])
        if uid is None:
            return False
        ent = wd.entity(uid)
        blob = bytes((v % 256) for v in op["blob"])
        self.parents.add(uid)
        new = self.call("FilenameData", ent.add_file, blob, name=op["name"])
        nuid = str(new.uid)
        node = snap_entity(new)
        self.check_created(wd, nuid, node, "FilenameData", uid, op["name"], "file")
        if node.get("values") != "hex:" + blob.hex():
            self.fail("C01", "created-values", "file", "FilenameData", "", f"blob {blob!r} got {node.get('values')}")
        wd.adopt(nuid, node, "data")
        del new, ent
        return True

    def op_comment(self, op):
        """add_comment on a group or object: creates the UserComments data or appends to it."""
        wd = self.w
        cands = [u for u in wd.nodes if u != wd.root and wd.kind[u] in ("group", "object")]
        uid = self.pick(cands, op["who"])
        if uid is None:
            return False
        ent = wd.entity(uid)
        self.parents.add(uid)
        existing = [c for c in wd.nodes[uid]["children"] if wd.nodes.get(c, {}).get("cls") == "CommentsData"]
        for c in existing:
            # (a copied comments data may sit next to the original: whichever the library appends to is a target)
            self.targets.add(c)
        self.call("CommentsData", ent.add_comment, op["text"], author="vp")
        comments = ent.comments
        if comments is None:
            self.fail("C01", "comment-not-added", "comment", wd.nodes[uid]["cls"], "", "add_comment left no comments data")
            return True
        cuid = str(comments.uid)
        node = snap_entity(comments)
        values = comments.values or []
        if not values or values[-1].get("Text") != op["text"] or values[-1].get("Author") != "vp":
            self.fail("C01", "created-values", "comment", "CommentsData", "", f"last comment {values[-1:]} expected text {op['text']!r}")
        if cuid in wd.nodes:
            if len(values) != len(wd.nodes[cuid].get("values") or []) + 1:
                self.fail("C01", "comment-count", "comment", "CommentsData", "", f"{len(values)} comments after appending to {len(wd.nodes[cuid].get('values') or [])}")
            wd.nodes[cuid]["values"] = node["values"]  # the date is chosen by the library: observed
        else:
            self.check_created(wd, cuid, node, "CommentsData", uid, "UserComments", "comment")
            wd.adopt(cuid, node, "data")
        self.touch()
        del ent, comments
        return True

    def op_type_clash(self, op):
        """An explicit request to create a type under the identifier of a live type of another kind must be refused
        without side effects; an entity of the class created afterwards still shares the class's single type."""
        from geoh5py.data import DataType

        wd = self.w
        objs = [o for o in wd.of_kind("object") if wd.nodes[o]["cls"] in F.CORE_OBJECT_CLASSES and wd.nodes[o]["cls"] != "Drillhole"]
        uid = self.pick(objs, op["who"])
        if uid is None:
            return False
        ent = wd.entity(uid)
        cls_name = wd.nodes[uid]["cls"]
        try:
            DataType(wd.ws, uid=ent.entity_type.uid, primitive_type="FLOAT", name="clash")
            accepted = True
        except Exception:
            accepted = False
        if accepted:
            self.fail("C06", "type-uid-reused", "type_clash", cls_name, "", f"a data type was created under the identifier of the live {cls_name} type")
            return True
        self.res.label("type_clash:refused")
        parent_uid = wd.nodes[uid]["parent"]
        parent = wd.entity(parent_uid)
        self.parents.add(parent_uid)
        new = self.call(cls_name, F.get_class(cls_name).create, wd.ws, parent=parent, name="after clash",
                        **F.object_kwargs(cls_name, op["geom"]))
        node = snap_entity(new)
        self.check_created(wd, str(new.uid), node, cls_name, parent_uid, "after clash", "object")
        wd.adopt(str(new.uid), node, "object")
        for child in getattr(new, "children", []):
            if hasattr(child, "entity_type") and str(child.uid) not in wd.nodes:
                wd.adopt(str(child.uid), snap_entity(child), "data")
        self.touch()
        del new, parent, ent
        self.check_uid_invariants(wd, "type_clash")
        return True

    def op_dhlog(self, op):
        """A depth log on a plain drillhole: the library adds the DEPTH data, vertices and a property group; the model
        adopts the hole's subtree as the library shows it right after the call (as for every creation)."""
        wd = self.w
        holes = [o for o in wd.of_kind("object") if wd.nodes[o]["cls"] == "Drillhole"]
        uid = self.pick(holes, op["obj"])
        if uid is None:
            return False
        ent = wd.entity(uid)
        name = op["name"] or "log"
        taken = {wd.nodes[c].get("name") for c in wd.nodes[uid]["children"] if c in wd.nodes}
        if "DEPTH" in taken and not self.program.get("allow_known"):
            # known finding (C01): a second log adds vertices; the cached arrays of the earlier logs stay short in
            # memory while a reader pads them
            self.res.count("excluded_by_finding")
            return False
        while name in taken:
            name += "_"
        depths = np.asarray(sorted(op["depths"]), dtype=float) / 2.0
        values = np.asarray((list(op["vals"]) * 2)[: len(depths)], dtype=float)
        self.targets.add(uid)
        for c in wd.nodes[uid]["children"]:
            self.targets.add(c)  # DEPTH and the earlier logs are re-sorted / padded with the new vertices
        self.call("Drillhole", ent.add_data, {name: {"depth": depths, "values": values}})
        parent_uid = wd.nodes[uid]["parent"]
        wd.nodes[uid] = snap_entity(ent)
        if wd.nodes[uid]["parent"] != parent_uid:
            self.fail("C01", "created-parent", "dhlog", "Drillhole", "", "adding a log moved the hole")
        for child in ent.children:
            if hasattr(child, "entity_type"):
                cuid = str(child.uid)
                if cuid in wd.nodes:
                    wd.nodes[cuid] = snap_entity(child)
                else:
                    wd.adopt(cuid, snap_entity(child), "data")
        self.res.label("dhlog")
        self.touch()
        del ent, child
        return True

    def op_visual_edit(self, op):
        """The colour stored in an object's visual parameters is changed (through whatever `obj.visual_parameters`
        gives: for a copy made without children that must not be the source's)."""
        wd = self.w
        uid = self.pick(wd.of_kind("object"), op["obj"])
        if uid is None:
            return False
        ent = wd.entity(uid)
        vp = getattr(ent, "visual_parameters", None)
        if vp is None:
            return False
        own = [c for c in wd.nodes[uid].get("children", []) if wd.nodes.get(c, {}).get("name") == "Visual Parameters"]
        if str(vp.uid) not in own:
            self.fail("C09", "visual-parameters-of-another-object", "visual_edit", wd.nodes[uid]["cls"], "",
                      f"{uid}.visual_parameters is {vp.uid}, which is not a child of that object")
            self.fail("C12", "copy-shares-visual-parameters", "visual_edit", wd.nodes[uid]["cls"], "",
                      f"{uid}.visual_parameters is {vp.uid}, which is not a child of that object")
            return True
        key = str(vp.uid)  # (a copied visual-parameters data may sit next to the original: the one the object gives)
        self.targets.add(key)
        self.parents.add(uid)
        self.call("VisualParameters", setattr, vp, "colour", [int(v) for v in op["rgb"]])
        wd.nodes[key] = snap_entity(vp)
        self.res.label("visual_edit")
        self.touch()
        del ent, vp
        return True

    def op_visual(self, op):
        """Default visual parameters (an XML text data child the object also references directly)."""
        wd = self.w
        cands = [u for u in wd.of_kind("object")
                 if not any(wd.nodes.get(c, {}).get("name") == "Visual Parameters" for c in wd.nodes[u].get("children", []))]
        uid = self.pick(cands, op["obj"])
        if uid is None:
            return False
        ent = wd.entity(uid)
        self.parents.add(uid)
        new = self.call("VisualParameters", ent.add_default_visual_parameters)
        if new is None:
            self.fail("C01", "created-nothing", "visual", wd.nodes[uid]["cls"], "", "add_default_visual_parameters returned None")
            return True
        vuid = str(new.uid)
        node = snap_entity(new)
        self.check_created(wd, vuid, node, "VisualParameters", uid, "Visual Parameters", "visual")
        wd.adopt(vuid, node, "data")
        self.touch()
        del ent, new
        return True

    # ------------------------------------------------------------------ move
    def move_targets(self, wd, uid):
        kind = wd.kind[uid]
        node = wd.nodes[uid]
        banned = set([uid] + wd.descendants(uid))
        if kind in ("group", "object"):
            return [g for g in wd.containers() if g not in banned and g != node["parent"]]
        assoc = node["association"].split(":")[1]
        src_count = self.element_count(wd, node["parent"], assoc)
        out = []
        for o in wd.of_kind("object"):
            if o == node["parent"]:
                continue
            if wd.nodes[o]["cls"] == "Drillhole":
                continue
            if assoc == "OBJECT" or self.element_count(wd, o, assoc) == src_count:
                out.append(o)
        return out

    def op_move(self, op):
        wd = self.w
        cands = [u for u in wd.nodes if u != wd.root]
        uid = self.pick(cands, op["who"])
        if uid is None:
            return False
        targets = self.move_targets(wd, uid)
        to = self.pick(targets, op["to"])
        if to is None:
            return False
        ent = wd.entity(uid)
        target = wd.entity(to)
        cls = wd.nodes[uid]["cls"]
        old = wd.nodes[uid]["parent"]
        self.targets.add(uid)
        self.parents.update({old, to})
        self.call(cls, setattr, ent, "parent", target)
        onode = wd.nodes[old]
        onode["children"] = sorted(c for c in onode["children"] if c != uid)
        onode["n_child_entries"] = len(onode["children"])
        if wd.kind[uid] == "data":
            wd.scrub_pgs(old, [uid])
        wd.nodes[uid]["parent"] = to
        tnode = wd.nodes[to]
        tnode["children"] = sorted(tnode["children"] + [uid])
        tnode["n_child_entries"] = len(tnode["children"])
        self.stats["moves"] += 1
        self.touch()
        del ent, target
        return True

    # ------------------------------------------------------------------ copy
    def op_copy(self, op):
        wd = self.w
        cands = [u for u in wd.nodes if u != wd.root]
        uid = self.pick(cands, op["who"])
        if uid is None:
            return False
        kind = wd.kind[uid]
        cross = bool(op.get("ws")) and len(self.worlds) > 1
        twd = self.worlds[1] if cross else wd
        if kind == "data":
            assoc = wd.nodes[uid]["association"].split(":")[1]
            src_count = self.element_count(wd, wd.nodes[uid]["parent"], assoc)
            targets = [o for o in twd.of_kind("object") if twd.nodes[o]["cls"] != "Drillhole"
                       and (assoc == "OBJECT" or self.element_count(twd, o, assoc) == src_count)]
            if op["to"] is None and not cross:
                to = wd.nodes[uid]["parent"]
            else:
                to = self.pick(targets, op["to"] or 0)
        else:
            banned = set([uid] + wd.descendants(uid)) if not cross else set()
            targets = [g for g in twd.containers() if g not in banned]
            if op["to"] is None and not cross:
                to = wd.nodes[uid]["parent"]
            else:
                to = self.pick(targets, op["to"] or 0)
        if to is None:
            return False
        src = wd.entity(uid)
        target = twd.entity(to)
        cls = wd.nodes[uid]["cls"]
        before_src = {u: _copy.deepcopy(wd.nodes[u]) for u in [uid] + wd.descendants(uid)}
        kwargs = {"parent": target}
        if kind != "data":
            kwargs["copy_children"] = op["children"]
        kwargs["clear_cache"] = op["clear"]
        self.parents.add(to)
        new = self.call(cls, src.copy, **kwargs)
        if new is None:
            self.fail("C12", "copy-returned-none", "copy", cls, "", "copy returned None")
            return True
        self.stats["copies"] += 1
        if cross:
            self.stats["cross_copies"] += 1
        self.adopt_copy(wd, twd, uid, new, to, op["children"] if kind != "data" else False, cross)
        if op.get("again_after_remove") and cross and kind != "data" and not self.stopped and "C06" in self.props:
            # remove the copy from the target workspace (nobody holds it), then copy again: every identifier of the
            # source is free there once more and has to be kept
            first_uid = str(new.uid)
            ent = twd.entity(first_uid)
            del new
            self.call(cls, twd.ws.remove_entity, ent)
            del ent
            twd.drop(first_uid)
            gc.collect()
            new = self.call(cls, src.copy, **kwargs)
            if new is not None:
                self.res.label("copy:again-after-remove")
                self.adopt_copy(wd, twd, uid, new, to, op["children"], cross)
        if (op.get("again_after_pg_delete") and cross and kind == "object" and op["children"] and not self.stopped
                and new is not None and str(new.uid) in twd.nodes and len(twd.nodes[str(new.uid)].get("pgs") or {}) >= 2):
            # the FIRST property group of the copy is deleted in the target workspace, then the object is copied again:
            # the first group's identifier is free there once more, the others are in use
            new_uid = str(new.uid)
            first = [pg for pg in (new.property_groups or []) if str(pg.uid) in twd.nodes[new_uid]["pgs"]][:1]
            if first:
                gone = str(first[0].uid)
                self.call("PropertyGroup", twd.ws.remove_entity, first[0])
                del twd.nodes[new_uid]["pgs"][gone]
                del first
                gc.collect()
                new = self.call(cls, src.copy, **kwargs)
                if new is not None:
                    self.res.label("copy:again-after-pg-delete")
                    self.adopt_copy(wd, twd, uid, new, to, op["children"], cross)
        if op.get("twice") and not self.stopped:
            # the same copy again: now the identifiers are taken in the target (fresh ones must be chosen and mapped)
            new = self.call(cls, src.copy, **kwargs)
            if new is not None:
                self.res.label("copy:twice" + (":cross" if cross else ""))
                self.adopt_copy(wd, twd, uid, new, to, op["children"] if kind != "data" else False, cross)
        self.touch()
        del src, target, new
        return True

    def adopt_copy(self, swd, twd, src_uid, new, parent_uid, with_children, cross):
        """Predict the copied subtree from the source model, compare, then record what was observed."""
        cls = swd.nodes[src_uid]["cls"]
        new_uid = str(new.uid)
        existing = set(twd.nodes)
        if new_uid in existing:
            self.fail("C06", "copy-reuses-live-uid", "copy", cls, "cross" if cross else "same", f"copy got uid {new_uid} already in use in the target workspace")
            self.fail("C01", "copy-reuses-live-uid", "copy", cls, "cross" if cross else "same", f"copy got uid {new_uid} already in use in the target workspace")
            return
        if cross and src_uid not in existing and new_uid != src_uid:
            self.fail("C06", "cross-copy-uid-not-preserved", "copy", cls, "", f"uid {src_uid} was free in the target workspace, copy got {new_uid}")
        # pair source and copy nodes in child order
        pairs = []  # (src_uid, live copy entity)

        def walk(s_uid, c_ent, depth):
            pairs.append((s_uid, c_ent))
            skids = [c for c in self.ordered_children(swd, s_uid)]
            ckids = [c for c in getattr(c_ent, "children", []) if hasattr(c, "entity_type")]
            expect = skids if (with_children or depth > 0) and swd.kind[s_uid] != "data" else []
            if swd.kind[s_uid] == "data":
                expect = []
            if len(ckids) != len(expect):
                self.fail("C12", "copy-children-count", "copy", swd.nodes[s_uid]["cls"], "cross" if cross else "same",
                          f"source {s_uid} has {len(expect)} children to copy, copy has {len(ckids)}")
                self.fail("C01", "copy-children-count", "copy", swd.nodes[s_uid]["cls"], "cross" if cross else "same",
                          f"source {s_uid} has {len(expect)} children to copy, copy has {len(ckids)}")
                return
            for s_child, c_child in zip(expect, ckids):
                walk(s_child, c_child, depth + 1)

        walk(src_uid, new, 0)
        if self.stopped:
            return
        umap = {s: str(c.uid) for s, c in pairs}
        if cross:
            taken_pgs = {u for n in twd.nodes.values() for u in (n.get("pgs") or {})}
            for s_uid, c_ent in pairs:
                if s_uid not in existing and str(c_ent.uid) != s_uid:
                    self.fail("C06", "cross-copy-uid-not-preserved", "copy", swd.nodes[s_uid]["cls"], "child",
                              f"uid {s_uid} was free in the target workspace, the copied child got {c_ent.uid}")
                live_pgs = {pg.name: str(pg.uid) for pg in (getattr(c_ent, "property_groups", None) or [])}
                for pg_uid, pg in (swd.nodes[s_uid].get("pgs") or {}).items():
                    got = live_pgs.get(pg["name"])
                    if got is not None and pg_uid not in taken_pgs and pg_uid not in existing and got != pg_uid and (
                            with_children or s_uid != src_uid):
                        self.fail("C06", "cross-copy-uid-not-preserved", "copy", "PropertyGroup", "",
                                  f"property group uid {pg_uid} was free in the target workspace, the copy got {got}")
        seen = set()
        for s_uid, c_ent in pairs:
            c_uid = str(c_ent.uid)
            if c_uid in existing or c_uid in seen:
                self.fail("C06", "copy-reuses-live-uid", "copy", swd.nodes[s_uid]["cls"], "child", f"copied child got uid {c_uid} already in use")
            seen.add(c_uid)
            live = snap_entity(c_ent)
            pred = _copy.deepcopy(swd.nodes[s_uid])
            pred["parent"] = parent_uid if s_uid == src_uid else umap[swd.nodes[s_uid]["parent"]]
            pred["children"] = sorted(umap[c] for c in pred.get("children", []) if c in umap) if "children" in pred else None
            if "children" not in swd.nodes[s_uid]:
                pred.pop("children", None)
            else:
                pred["n_child_entries"] = len(pred["children"])
            # property groups: same names / associations / membership mapped onto the copied children
            spgs = swd.nodes[s_uid].get("pgs")
            lpgs = live.get("pgs")
            if spgs is not None or lpgs is not None:
                want = sorted((pg["name"], pg["association"], pg["type"], tuple(umap.get(p, "?" + p) for p in pg["props"]))
                              for pg in (spgs or {}).values()) if (with_children or s_uid != src_uid) else []
                have = sorted((pg["name"], pg["association"], pg["type"], tuple(pg["props"])) for pg in (lpgs or {}).values())
                if want != have:
                    self.fail("C12", "copy-property-groups", "copy", pred["cls"], "cross" if cross else "same",
                              f"property groups of copy {have} != source mapped {want}")
                if len(have) < len(want):
                    # every copied property group has an identifier of its own: fewer groups than the source means
                    # that two of them were given the same one
                    self.fail("C06", "copied-property-groups-collapsed", "copy", pred["cls"], "cross" if cross else "same",
                              f"source has {len(want)} property groups, the copy {len(have)}: {have}")
                for pg_uid in (lpgs or {}):
                    if not cross and any(pg_uid in (n.get("pgs") or {}) for n in swd.nodes.values()):
                        self.fail("C06", "copy-reuses-pg-uid", "copy", pred["cls"], "same", f"property group uid {pg_uid} reused by a copy in the same workspace")
            for fieldname in sorted(set(pred) | set(live)):
                if fieldname in ("pgs", "type"):
                    continue
                if pred.get(fieldname) != live.get(fieldname):
                    owner = "C01" if fieldname in ("cls", "parent", "children", "n_child_entries") else "C12"
                    self.fail(owner, "copy-differs", "copy", pred["cls"], fieldname + ("@cross" if cross else ""),
                              f"copy of {s_uid}: {fieldname} source={pred.get(fieldname)!r} copy={live.get(fieldname)!r}")
            ptype, ltype = pred.get("type"), live.get("type")
            if isinstance(ptype, dict) and isinstance(ltype, dict):
                for key in sorted(set(ptype) | set(ltype)):
                    if key == "uid" and cross:
                        continue
                    if ptype.get(key) != ltype.get(key):
                        self.fail("C12", "copy-type-differs", "copy", pred["cls"], key + ("@cross" if cross else ""),
                                  f"type attribute {key}: source={ptype.get(key)!r} copy={ltype.get(key)!r}")
            if self.stopped:
                return
            # copy equality is owned by C12; for the model keep what the live copy shows from now on
            twd.adopt(c_uid, snap_entity(c_ent), swd.kind[s_uid])

    def ordered_children(self, wd, uid):
        """Children of a model node in the live child order (needed to pair copies)."""
        ent = wd.entity(uid)
        if ent is None or not hasattr(ent, "children"):
            return []
        return [str(c.uid) for c in ent.children if hasattr(c, "entity_type") and str(c.uid) in wd.nodes]

    # ------------------------------------------------------------------ remove
    def op_remove(self, op):
        wd = self.w
        if op.get("ws") and len(self.worlds) > 1 and len(self.worlds[1].nodes) > 1:
            wd = self.worlds[1]  # removal in the second workspace (then the uid is free there again)
            self.res.label("remove:in-second-workspace")
        cands = [u for u in wd.nodes if u != wd.root]
        uid = self.pick(cands, op["who"])
        if uid is None:
            return False
        node = wd.nodes[uid]
        cls = node["cls"]
        ent = wd.entity(uid)
        for g in [uid] + wd.descendants(uid):
            self.removed_names[g] = wd.nodes[g].get("name")
        rich = bool(wd.descendants(uid)) or any(uid in pg["props"] for pg in (wd.nodes[node["parent"]].get("pgs") or {}).values())
        n_groups = sum(uid in pg["props"] for pg in (wd.nodes[node["parent"]].get("pgs") or {}).values())
        self.parents.add(node["parent"])
        if (op.get("protect") and self.props and self.props <= {"C01", "C02", "C06"} and wd.descendants(uid)
                and not protected(node)):
            # constructive: one descendant is protected first, then the ancestor is removed through the workspace
            desc = wd.descendants(uid)
            d_uid = desc[op["who"] % len(desc)]
            d_ent = wd.entity(d_uid)
            if d_ent is not None and not protected(wd.nodes[d_uid]):
                self.call(wd.nodes[d_uid]["cls"], setattr, d_ent, "allow_delete", False)
                wd.nodes[d_uid]["allow_delete"] = False
            del d_ent
            op = {**op, "via": "ws"}
        if op["via"] == "ws" and not protected(node) and any(
                protected(wd.nodes[d]) for d in wd.descendants(uid)):
            # removing an entity with a protected descendant: which part of the subtree goes before the refusal is not
            # fixed by any statement; what remains must still be one tree (C01: live == re-opened, C02: a valid file, C06:
            # every entity still in the tree owns its identifier)
            if not self.props or not self.props <= {"C01", "C02", "C06"}:
                self.res.count("skipped_protected_descendant")
                del ent
                return False
            try:
                wd.ws.remove_entity(ent)
                self.res.label("remove:protected-descendant:accepted")
            except Exception:
                self.res.label("remove:protected-descendant:refused")
            del ent
            gc.collect()
            live = apisnap(wd.ws, with_listings=False)["nodes"]
            gone = [u for u in wd.nodes if u not in live]
            wd.nodes = {u: live[u] for u in wd.nodes if u in live}
            wd.kind = {u: k for u, k in wd.kind.items() if u in wd.nodes}
            for g in gone:
                self.removed[g] = (cls, "ws", "no-listing")
                self.removed_via[(wd.tag, g)] = "ws"
            self.held = [h for h in self.held if str(h.uid) not in gone]
            self.touch()
            return True
        if op["via"] == "ws":
            if protected(node):
                pre = apisnap(wd.ws, with_listings=False)["nodes"]
                raised = False
                try:
                    wd.ws.remove_entity(ent)
                except Exception:
                    raised = True
                post = apisnap(wd.ws, with_listings=False)["nodes"]
                if not raised:
                    self.fail("C05", "refusal-missing", "remove_ws", cls, "allow_delete=False", "removal of a protected entity was not refused")
                elif pre != post:
                    self.fail("C05", "refusal-side-effects", "remove_ws", cls, "allow_delete=False", f"refused removal changed the tree: {diff_nodes(pre, post)[:3]}")
                self.res.label("refusal")
                del ent
                return True
            desc = [d for d in wd.descendants(uid)]
            noref = bool(op.get("noref")) and not ({uid, *desc} & {str(h.uid) for h in self.held})
            if noref:
                del ent
                ent = None
                try:
                    wd.ws.remove_entity(wd.ws.get_entity(uuid.UUID(uid))[0])
                except Exception as exc:
                    raise OpError(cls) from exc
                desc = [uid] + desc
                self.res.label("remove:caller-holds-no-reference")
            else:
                self.call(cls, wd.ws.remove_entity, ent)
            if noref and self.props & {"C05", "C06"}:
                # the caller referenced neither the entity nor its descendants: the removal itself has to make their
                # identifiers free (the library runs its own garbage collection for that), before any collection of the
                # caller's. (When the caller holds the entity, what the entity still references stays alive with it.)
                held_now = {str(h.uid) for h in self.held}
                for d in desc:
                    if d in held_now:
                        continue
                    found = wd.ws.get_entity(uuid.UUID(d))
                    if any(f is not None for f in found):
                        self.fail("C05" if "C05" in self.props else "C06", "descendant-still-resolves", "remove_ws", cls,
                                  type(found[0]).__name__, f"right after remove_entity of {uid}, get_entity({d}) returns {found[0]!r}")
                        break
                    del found
                self.res.count("descendants_looked_up_before_caller_gc", len(desc))
        else:
            parent = wd.entity(node["parent"])
            self.call(cls, parent.remove_children, [ent])
            del parent
        del ent
        gone = wd.drop(uid)
        # "once the caller has dropped its own references": the harness drops what it held
        self.held = [h for h in self.held if str(h.uid) not in gone]
        mode = ("lookup-first", "listing-first", "no-listing")[op["who"] % 3]
        if op["via"] == "parent" and not self.program.get("allow_known") and (
                mode != "listing-first" or "C05" not in self.props):
            # known finding (C05/C02): nodes of parent-removed entities are deleted lazily by the next
            # listing after GC; a lookup or a close before that leaves them in the file. Neutralised here
            # (a listing right after the removal) so that the search continues behind it.
            self.res.count("excluded_by_finding")
            mode = "listing-first"
            gc.collect()
            for listing in ("groups", "objects", "data"):
                getattr(wd.ws, listing)
        if op["via"] == "parent" and mode != "listing-first":
            # (only with allow_known) the trigger of the lazy-deletion finding is active from here on: which stale nodes
            # are still in the file at the next close depends on when the collector freed the Python objects
            self.lazy_trigger_used = True
        for g in gone:
            self.removed[g] = (cls, op["via"], mode)
            self.removed_via[(wd.tag, g)] = op["via"]
        # "once the caller has dropped its own references": the harness drops what it held
        self.held = [h for h in self.held if str(h.uid) not in gone]
        if rich:
            self.stats["removals_rich"] += 1
        self.res.label(f"remove:{op['via']}:groups={min(n_groups, 2)}")
        self.res.label("absence-check:" + mode)
        self.touch()
        gc.collect()
        if mode != "no-listing":
            self.check_absent(wd, gone, "remove_" + op["via"], cls, lookup_first=(mode == "lookup-first"))
        return True

    def op_remove_many(self, op):
        """parent.remove_children([several children, possibly of different kinds]) in one call."""
        wd = self.w
        parents = [u for u in wd.nodes if len(wd.nodes[u].get("children", [])) >= 2]
        parent_uid = self.pick(parents, op["parent"])
        if parent_uid is None:
            return False
        kids = [c for c in wd.nodes[parent_uid]["children"] if c in wd.nodes]
        chosen = []
        for idx in op["who"]:
            c = self.pick(kids, idx)
            if c not in chosen:
                chosen.append(c)
        if len(chosen) < 2:
            return False
        parent = wd.entity(parent_uid)
        own_list = bool(op.get("own_list")) and wd.kind.get(parent_uid) == "group" and \
            wd.nodes[parent_uid]["cls"] != "DrillholeGroup" and len(kids) == len(wd.nodes[parent_uid]["children"]) and \
            all(wd.nodes[g].get("allow_delete") in (True, 1) for c in kids for g in [c] + wd.descendants(c))
        if own_list:
            chosen = list(kids)
            ents = parent.children
            self.res.label("remove_many:own-child-list")
        else:
            ents = [wd.entity(c) for c in chosen]
        kinds = {wd.kind[c] for c in chosen}
        self.parents.add(parent_uid)
        self.call("several", parent.remove_children, ents)
        del ents, parent
        gone = []
        for c in chosen:
            cls = wd.nodes[c]["cls"]
            names = {g: wd.nodes[g].get("name") for g in [c] + wd.descendants(c)}
            self.removed_names.update(names)
            for g in wd.drop(c):
                self.removed[g] = (cls, "parent", "listing-first")
                self.removed_via[(wd.tag, g)] = "parent"
                gone.append(g)
        self.held = [h for h in self.held if str(h.uid) not in gone]
        self.res.label("remove_many:" + ("mixed-kinds" if len(kinds) > 1 else "one-kind"))
        self.touch()
        gc.collect()
        for listing in ("groups", "objects", "data"):
            getattr(wd.ws, listing)  # (the lazy deletion of parent-removed nodes needs a listing: known finding)
        self.check_absent(wd, gone, "remove_many", "several", lookup_first=False)
        return True

    def check_absent(self, wd, gone, opkind, cls, where="live", lookup_first=True):
        if "C05" not in self.props:
            return

        def lookups():
            for g in gone:
                ent = wd.ws.get_entity(uuid.UUID(g))[0]
                if ent is not None:
                    self.fail("C05", "lookup-yields-removed", opkind, cls, where, f"get_entity({g}) still returns {type(ent).__name__}")
                    return

        def listings():
            for listing in ("groups", "objects", "data"):
                try:
                    ents = list(getattr(wd.ws, listing))
                except Exception as exc:
                    self.fail("C05", "listing-raises", opkind, cls, f"{listing}@{where}", f"workspace.{listing} raised {type(exc).__name__}: {exc}")
                    return
                for ent in ents:
                    if str(ent.uid) in gone:
                        self.fail("C05", "listing-yields-removed", opkind, cls, f"{listing}@{where}", f"workspace.{listing} still lists removed {ent.uid}")
                        return
            for pg in wd.ws.property_groups:
                for prop in pg.properties or []:
                    if str(prop) in gone:
                        self.fail("C05", "dangling-pg-ref", opkind, cls, where, f"property group {pg.name!r} of {pg.parent.name!r} still lists removed data {prop}")
                        return

        for step in ((lookups, listings) if lookup_first else (listings, lookups)):
            step()
            if self.stopped:
                return
        # lookup by name must not yield a removed entity either
        names = {n for n in (self.removed_names.get(g) for g in gone) if n is not None}
        for name in names:
            for ent in wd.ws.get_entity(name):
                if ent is not None and str(ent.uid) in gone:
                    self.fail("C05", "lookup-by-name-yields-removed", opkind, cls, where, f"get_entity({name!r}) returns removed {ent.uid}")
                    return

    def check_raw_absent(self, wd):
        """After a close: nothing in the file mentions a removed entity (plain h5py view)."""
        snap = rawsnap(str(wd.path))
        lazy = ":after-lazy-removal" if self.lazy_trigger_used else ""
        gone = {("{" + g + "}").lower(): g for g in self.removed if g not in wd.nodes}
        # an identifier that was removed and then used again for an entity of another kind: the node left in the OLD
        # container is still the removed entity's
        container_of = {"group": "Groups", "object": "Objects", "data": "Data"}
        reused = {("{" + g + "}").lower(): g for g in self.removed if g in wd.nodes}
        for cname, nodes in snap["containers"].items():
            for uid, node in nodes.items():
                if uid.lower() in reused and container_of.get(wd.kind.get(reused[uid.lower()])) != cname:
                    cls, via, mode = self.removed[reused[uid.lower()]]
                    self.fail("C05", "file-node-remains", "remove_" + via, cls, f"{cname}:{mode}{lazy}", f"{cname}/{uid} still in the file after removal and close (its identifier is in use again, in another container)")
                    return
                if uid.lower() in gone:
                    cls, via, mode = self.removed[gone[uid.lower()]]
                    self.fail("C05", "file-node-remains", "remove_" + via, cls, f"{cname}:{mode}{lazy}", f"{cname}/{uid} still in the file after removal and close")
                    return
                for sub, entries in node["children"].items():
                    for child in entries:
                        if child.lower() in gone:
                            cls, via, mode = self.removed[gone[child.lower()]]
                            self.fail("C05", "file-link-remains", "remove_" + via, cls, sub + lazy, f"{cname}/{uid}/{sub}/{child} link remains after removal and close")
                            return
                for pg_uid, attrs in (node["pgs"] or {}).items():
                    props = attrs.get("Properties") or []
                    if isinstance(props, str):
                        props = [props]
                    for prop in props:
                        if str(prop).lower() in gone:
                            cls, via, mode = self.removed[gone[str(prop).lower()]]
                            self.fail("C05", "file-pg-ref-remains", "remove_" + via, cls, "", f"PropertyGroups/{pg_uid} of {uid} lists removed {prop}")
                            return

    # ------------------------------------------------------------------ property groups
    def op_pg_add(self, op):
        wd = self.w
        objs = [o for o in wd.of_kind("object") if any(wd.kind.get(c) == "data" for c in wd.nodes[o]["children"])]
        obj_uid = self.pick(objs, op["obj"])
        if obj_uid is None:
            return False
        kids = [c for c in wd.nodes[obj_uid]["children"] if wd.kind.get(c) == "data"
                and wd.nodes[c]["association"] in ("enum:VERTEX", "enum:CELL")]
        if not kids:
            return False
        first = self.pick(kids, op["data"][0])
        assoc = wd.nodes[first]["association"]
        same = [c for c in kids if wd.nodes[c]["association"] == assoc]
        chosen = []
        for idx in op["data"]:
            c = self.pick(same, idx)
            if c not in chosen:
                chosen.append(c)
        pgs = wd.nodes[obj_uid].get("pgs") or {}
        existing = [u for u, pg in pgs.items() if pg["name"] == op["name"]]
        if existing and pgs[existing[0]]["association"] != assoc:
            return False  # adding data of another association to an existing group: not claimed valid
        obj = wd.entity(obj_uid)
        ents = [wd.entity(c) for c in chosen]
        self.targets.add(obj_uid)
        self.call("PropertyGroup", obj.add_data_to_group, ents, op["name"])
        for c in chosen:
            self.sync_pgs(wd, obj_uid, obj, (op["name"], c, assoc.split(":")[1]), "pg_add")
        self.touch()
        del obj, ents
        return True

    def all_pgs(self, wd):
        return [(o, u) for o in wd.of_kind("object") for u in (wd.nodes[o].get("pgs") or {})]

    def op_pg_remove_props(self, op):
        wd = self.w
        pgs = self.all_pgs(wd)
        pick = self.pick(pgs, op["pg"])
        if pick is None:
            return False
        obj_uid, pg_uid = pick
        pg_model = wd.nodes[obj_uid]["pgs"][pg_uid]
        if not pg_model["props"]:
            return False
        # the list may mix members, non-members (ignored by the library) and repeats, in any order
        pool = pg_model["props"] + [c for c in wd.nodes[obj_uid]["children"]
                                    if wd.kind.get(c) == "data" and c not in pg_model["props"]]
        chosen = [self.pick(pool, idx) for idx in op["data"]]
        if not any(c in pg_model["props"] for c in chosen):
            chosen.append(pg_model["props"][op["pg"] % len(pg_model["props"])])
        if any(c not in pg_model["props"] for c in chosen) or len(set(chosen)) < len(chosen):
            self.res.label("pg_remove_props:non-members-or-repeats")
        obj = wd.entity(obj_uid)
        pg = [p for p in obj.property_groups if str(p.uid) == pg_uid]
        if not pg:
            self.fail("C01", "pg-lost", "pg_remove_props", "PropertyGroup", "", f"property group {pg_uid} of the model not on the live object")
            return True
        ents = [wd.entity(c) for c in chosen]
        self.targets.add(obj_uid)
        self.call("PropertyGroup", pg[0].remove_properties, ents)
        pg_model["props"] = [p for p in pg_model["props"] if p not in chosen]
        if not pg_model["props"]:
            del wd.nodes[obj_uid]["pgs"][pg_uid]
        self.touch()
        del obj, pg, ents
        return True

    def op_pg_delete(self, op):
        wd = self.w
        pgs = self.all_pgs(wd)
        pick = self.pick(pgs, op["pg"])
        if pick is None:
            return False
        obj_uid, pg_uid = pick
        obj = wd.entity(obj_uid)
        pg = [p for p in obj.property_groups if str(p.uid) == pg_uid]
        if not pg:
            self.fail("C01", "pg-lost", "pg_delete", "PropertyGroup", "", f"property group {pg_uid} of the model not on the live object")
            return True
        self.targets.add(obj_uid)
        self.call("PropertyGroup", wd.ws.remove_entity, pg[0])
        del wd.nodes[obj_uid]["pgs"][pg_uid]
        self.touch()
        del obj, pg
        gc.collect()
        if "C05" in self.props:
            for p in wd.ws.property_groups:
                if str(p.uid) == pg_uid:
                    self.fail("C05", "listing-yields-removed", "pg_delete", "PropertyGroup", "property_groups@live", f"removed property group {pg_uid} still listed")
        return True


def run_tree(program, res, props, opts=None):
    run = TreeRun(program, res, props, opts)
    stats = run.execute()
    for key in ("reopens", "copies", "cross_copies", "moves", "removals_rich", "onfile_mutations"):
        if stats[key]:
            res.count(key, stats[key])
    for kind in stats["kinds"]:
        res.label("op:" + kind)
    return run, stats
