"""Builders that turn JSON-able specs (from generated programs) into geoh5py calls.

Nothing here draws random numbers: every argument comes from the program.
"""
from __future__ import annotations

import numpy as np

# ------------------------------------------------------------------------------ classes
GROUP_CLASSES = [
    "ContainerGroup", "SimPEGGroup", "UIJsonGroup", "GiftoolsGroup", "NoTypeGroup", "AirborneGeophysics",
    "IntegratorGroup", "IntegratorProject", "QueryGroup", "AirborneTheme", "EarthModelsTheme",
    "GeochemistryMineralogyDataSet", "GeochemistryMineralogyTheme", "GeophysicsTheme", "GroundTheme",
    "ObservationPointsTheme", "RockPropertiesTheme", "SamplesTheme", "DrillholeGroup", "IntegratorDrillholeGroup",
]
# object classes grouped by the geometry builder they use
POINT_LIKE = ["Points", "IntegratorPoints", "AirborneMagnetics", "MTReceivers", "TipperReceivers",
              "TipperBaseStations", "AirborneTEMReceivers", "AirborneFEMReceivers", "NoTypeObject", "Label"]
CURVE_LIKE = ["Curve", "PotentialElectrode", "CurrentElectrode", "AirborneTEMTransmitters",
              "MovingLoopGroundTEMReceivers", "MovingLoopGroundFEMReceivers",
              "LargeLoopGroundTEMReceivers", "LargeLoopGroundFEMReceivers"]
SURFACE_LIKE = ["Surface", "NeighbourhoodSurface"]
GRID_LIKE = ["Grid2D", "BlockModel", "Octree", "DrapeModel"]
OTHER = ["Drillhole", "GeoImage"]
OBJECT_CLASSES = POINT_LIKE + CURVE_LIKE + SURFACE_LIKE + GRID_LIKE + OTHER
CORE_OBJECT_CLASSES = ["Points", "Curve", "Surface", "Grid2D", "BlockModel", "Octree", "DrapeModel",
                       "Drillhole", "Label", "NoTypeObject"]

DATA_KINDS = ["float", "int", "bool", "ref", "text", "multitext"]
ASSOCS = ["VERTEX", "CELL", "OBJECT"]


def get_class(name: str):
    from geoh5py import groups, objects

    return getattr(objects, name, None) or getattr(groups, name)


def lattice(ints, n, offset=0):
    """n x 3 coordinates on a half-integer lattice from a list of small ints."""
    ints = list(ints) or [0]
    out = []
    for i in range(n):
        row = [ints[(offset + 3 * i + k) % len(ints)] / 2.0 + (i if k == 0 and len(ints) < 3 * n else 0.0)
               for k in range(3)]
        out.append(row)
    return np.asarray(out, dtype=float)


def object_kwargs(cls_name: str, geom: dict) -> dict:
    """Minimal valid creation kwargs for a class from a geometry spec {'n': int, 'g': [ints]}."""
    n = max(1, int(geom.get("n", 3)))
    g = [int(v) for v in geom.get("g", [0, 1, 2, 3])] or [0]
    pick = lambda i: g[i % len(g)]  # noqa: E731
    if cls_name in POINT_LIKE:
        if cls_name in ("NoTypeObject", "Label"):
            return {}
        return {"vertices": lattice(g, n)}
    if cls_name in CURVE_LIKE:
        n = max(2, n)
        kwargs = {"vertices": lattice(g, n)}
        mode = geom.get("cells")
        if mode == "parts":
            kwargs["parts"] = np.asarray([(pick(i) % 2) for i in range(n)], dtype="int32")
        elif isinstance(mode, list) and mode:
            kwargs["cells"] = np.asarray([[row[0] % n, row[1] % n] for row in mode], dtype="uint32")
        return kwargs
    if cls_name in SURFACE_LIKE:
        n = max(3, n)
        mode = geom.get("cells")
        if isinstance(mode, list) and mode:
            cells = [[row[0] % n, row[1] % n, row[2] % n] for row in mode]
        else:
            cells = [[i, i + 1, i + 2] for i in range(n - 2)]
        return {"vertices": lattice(g, n), "cells": np.asarray(cells, dtype="uint32")}
    if cls_name == "Grid2D":
        return {
            "origin": [pick(0) / 2.0, pick(1) / 2.0, pick(2) / 2.0],
            "u_count": 1 + abs(pick(3)) % 4,
            "v_count": 1 + abs(pick(4)) % 4,
            "u_cell_size": float(1 + abs(pick(5)) % 3) * (1.0 if pick(6) % 5 else -1.0),
            "v_cell_size": float(1 + abs(pick(7)) % 3),
            "rotation": float((pick(8) % 8) * 15),
            "dip": float((pick(9) % 4) * 15),
        }
    if cls_name == "BlockModel":
        def delim(k, count):
            steps = [1 + abs(pick(k + j)) % 3 for j in range(count)]
            return np.r_[0.0, np.cumsum(steps)].astype(float)

        return {
            "origin": [pick(0) / 2.0, pick(1) / 2.0, pick(2) / 2.0],
            "u_cell_delimiters": delim(3, 1 + abs(pick(3)) % 3),
            "v_cell_delimiters": delim(5, 1 + abs(pick(4)) % 3),
            "z_cell_delimiters": -delim(7, 1 + abs(pick(5)) % 2),
            "rotation": float((pick(8) % 8) * 15),
        }
    if cls_name == "Octree":
        return {
            "origin": [pick(0) / 2.0, pick(1) / 2.0, pick(2) / 2.0],
            "u_count": 2 ** (abs(pick(3)) % 3),
            "v_count": 2 ** (abs(pick(4)) % 3),
            "w_count": 2 ** (abs(pick(5)) % 2),
            "u_cell_size": float(1 + abs(pick(6)) % 3),
            "v_cell_size": float(1 + abs(pick(7)) % 3),
            "w_cell_size": float(1 + abs(pick(8)) % 3),
            "rotation": float((pick(9) % 8) * 15),
        }
    if cls_name == "DrapeModel":
        n_prisms = 1 + n % 3
        layers, prisms, first = [], [], 0
        for i in range(n_prisms):
            count = 1 + abs(pick(i)) % 2
            top = float(pick(i + 3))
            prisms.append([float(i), pick(i + 1) / 2.0, top, first, count])
            for k in range(count):
                layers.append([i, k, top - (k + 1) * 1.0])
            first += count
        return {"layers": np.asarray(layers, dtype=float), "prisms": np.asarray(prisms, dtype=float)}
    if cls_name == "Drillhole":
        rows = 1 + n % 3
        surveys = [[float(5 * j), float((pick(j) % 12) * 30), float(-90 + (abs(pick(j + 1)) % 4) * 15)]
                   for j in range(rows)]
        return {"collar": [pick(0) / 2.0, pick(1) / 2.0, pick(2) / 2.0],
                "surveys": np.asarray(surveys, dtype=float)}
    if cls_name == "GeoImage":
        h, w = 2 + abs(pick(0)) % 2, 2 + abs(pick(1)) % 2
        img = np.asarray([[(pick(i * w + j) * 37) % 256 for j in range(w)] for i in range(h)], dtype="uint8")
        return {"image": img}
    return {}


def n_elements(obj, assoc: str):
    if assoc == "VERTEX":
        return getattr(obj, "n_vertices", None)
    if assoc == "CELL":
        return getattr(obj, "n_cells", None)
    return 1


def make_values(kind: str, vals, count=None):
    """Array for a data kind from a list of small ints/None. Returns (array, expected_list).

    expected_list is what must be read back (after padding to `count` with the kind's no-data value)."""
    vals = list(vals)
    if count is not None:
        vals = vals[: max(count, 0)] if len(vals) > count else vals
    if kind == "float":
        arr = np.asarray([np.nan if v is None else v / 4.0 for v in vals], dtype=float)
        exp = ["NaN" if v is None else v / 4.0 for v in vals]
        pad = "NaN"
    elif kind == "int":
        arr = np.asarray([0 if v is None else v for v in vals], dtype="int32")
        exp = [0 if v is None else int(v) for v in vals]
        pad = -2147483648
    elif kind == "bool":
        arr = np.asarray([bool((v or 0) % 2) for v in vals], dtype=bool)
        exp = [bool((v or 0) % 2) for v in vals]
        pad = False
    elif kind == "ref":
        arr = np.asarray([abs(v or 0) % 3 for v in vals], dtype="int32")
        exp = [abs(v or 0) % 3 for v in vals]
        pad = -2147483648
    elif kind in ("text", "multitext"):
        arr = np.asarray([("" if v is None else f"s{v}") for v in vals] or [""], dtype=str)[: len(vals)]
        exp = [("" if v is None else f"s{v}") for v in vals]
        pad = ""
    else:
        raise ValueError(kind)
    if count is not None and len(exp) < count:
        exp = exp + [pad] * (count - len(exp))
    return arr, exp


KIND_CLASS = {"float": "FloatData", "int": "IntegerData", "bool": "BooleanData", "ref": "ReferencedData",
              "text": "TextData", "multitext": "MultiTextData"}
KIND_DTYPE = {"float": "f", "int": "i", "bool": "b", "ref": "i", "text": "U", "multitext": "U"}


def data_spec(kind: str, assoc: str, arr) -> dict:
    spec = {"values": arr, "association": assoc}
    if kind == "ref":
        spec["type"] = "referenced"
        spec["value_map"] = {1: "A", 2: "B"}
    elif kind == "multitext":
        spec["type"] = "multi_text"
    elif kind == "text":
        spec["type"] = "text"
    elif kind == "bool":
        spec["type"] = "boolean"
    elif kind == "int":
        spec["type"] = "integer"
    elif kind == "float":
        spec["type"] = "float"
    return spec
