"""Process-level environment for checks: deterministic uids, scratch files, handle accounting."""
from __future__ import annotations

import atexit
import gc
import hashlib
import os
import random
import shutil
import tempfile
import uuid
import warnings
from pathlib import Path

import h5py

warnings.simplefilter("ignore")

_REAL_UUID4 = uuid.uuid4
_rng: random.Random | None = None


def _det_uuid4():
    if _rng is None:
        return _REAL_UUID4()
    return uuid.UUID(int=_rng.getrandbits(128), version=4)


uuid.uuid4 = _det_uuid4


def seed_uids(token) -> None:
    """Make every uid geoh5py allocates during this case a function of `token`."""
    global _rng
    digest = hashlib.sha256(repr(token).encode()).digest()
    _rng = random.Random(int.from_bytes(digest[:8], "big"))


def fresh_uid() -> uuid.UUID:
    return _det_uuid4()


# ------------------------------------------------------------------ scratch space
_SCRATCH: Path | None = None
_counter = 0
_cases = 0


def scratch_dir() -> Path:
    global _SCRATCH
    if _SCRATCH is None:
        base = "/dev/shm" if os.path.isdir("/dev/shm") and os.access("/dev/shm", os.W_OK) else None
        _SCRATCH = Path(tempfile.mkdtemp(prefix=f"vp_{os.getpid()}_", dir=base))
        atexit.register(cleanup)
    return _SCRATCH


def cleanup():
    global _SCRATCH
    if _SCRATCH is not None:
        shutil.rmtree(_SCRATCH, ignore_errors=True)
        _SCRATCH = None


def new_path(stem: str = "ws", suffix: str = ".geoh5") -> Path:
    global _counter
    _counter += 1
    return scratch_dir() / f"{stem}_{_counter}{suffix}"


def new_dir(stem: str = "d") -> Path:
    global _counter
    _counter += 1
    path = scratch_dir() / f"{stem}_{_counter}"
    path.mkdir()
    return path


def clear_scratch():
    """Remove everything created so far in the scratch dir (called between cases)."""
    if _SCRATCH is not None:
        for item in _SCRATCH.iterdir():
            if item.is_dir():
                shutil.rmtree(item, ignore_errors=True)
            else:
                try:
                    item.unlink()
                except OSError:
                    pass


# ------------------------------------------------------------------ handle accounting
def open_file_ids() -> int:
    """Number of open HDF5 *file* identifiers in this process."""
    return h5py.h5f.get_obj_count(h5py.h5f.OBJ_ALL, h5py.h5f.OBJ_FILE)


def open_ids_of(path) -> int:
    """Open HDF5 identifiers (any kind) that belong to the file at `path`."""
    count = 0
    path = os.path.realpath(str(path))
    try:
        ids = h5py.h5f.get_obj_ids(h5py.h5f.OBJ_ALL, h5py.h5f.OBJ_FILE)
    except Exception:  # pragma: no cover
        return 0
    for fid in ids:
        try:
            name = fid.name
            if isinstance(name, bytes):
                name = name.decode()
            if os.path.realpath(name) == path:
                count += h5py.h5f.get_obj_count(fid, h5py.h5f.OBJ_ALL)
        except Exception:
            continue
    return count


def reset_library_state():
    """Reset process-global state of geoh5py that could leak between cases."""
    from geoh5py.workspace import Workspace

    Workspace._active_ref = type(None)  # type: ignore
    global _cases
    gc.collect()
    _cases += 1
    if _cases % 20 == 0:
        # everything alive at a case boundary belongs to the harness / Hypothesis: move it out of the
        # collector's way so that the per-case gc.collect() stays cheap on long runs
        gc.freeze()


def close_quietly(*workspaces):
    for ws in workspaces:
        try:
            if ws is not None:
                ws.close()
        except Exception:
            try:
                if ws._geoh5:
                    ws._geoh5.close()
            except Exception:
                pass
