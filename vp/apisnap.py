"""What a user of geoh5py sees: a snapshot of a workspace through public getters only."""
from __future__ import annotations

import uuid as _uuid

import numpy as np

SKIP = {
    "uid", "property_groups", "entity_type", "parent", "concatenated_attributes", "concatenated_object_ids",
    "property_group_ids", "children", "workspace", "attribute_map", "on_file", "clipping_ids",
    "color_map", "trace", "trace_depth", "image", "image_data", "image_georeferenced", "tag",
}
_ATTR_CACHE: dict = {}


def canon_value(value, depth=0):
    """Canonical, comparable, JSON-able representation; NaN == NaN."""
    if value is None or isinstance(value, (bool, str)):
        return value
    if isinstance(value, (int, np.integer)):
        return int(value)
    if isinstance(value, (float, np.floating)):
        value = float(value)
        return "NaN" if value != value else value
    if isinstance(value, bytes):
        return "hex:" + value.hex()
    if isinstance(value, _uuid.UUID):
        return "uid:" + str(value)
    if isinstance(value, np.ndarray):
        if value.dtype.names:
            rows = np.atleast_1d(value).tolist()
            return ["rec", list(value.dtype.names), [canon_value(list(r), depth + 1) for r in rows]]
        if value.dtype.kind == "f":
            flat = [("NaN" if v != v else v) for v in value.ravel().tolist()]
            return ["arr", "f", list(value.shape), flat]
        if value.dtype.kind in "iu":
            return ["arr", "i", list(value.shape), value.ravel().tolist()]
        if value.dtype.kind == "b":
            return ["arr", "b", list(value.shape), value.ravel().tolist()]
        return ["arr", value.dtype.kind, list(value.shape), [canon_value(v, depth + 1) for v in value.ravel().tolist()]]
    if isinstance(value, dict):
        return {str(canon_value(k, depth + 1)): canon_value(v, depth + 1) for k, v in value.items()}
    if isinstance(value, (list, tuple)):
        return [canon_value(v, depth + 1) for v in value]
    if hasattr(value, "uid") and isinstance(getattr(value, "uid", None), _uuid.UUID):
        return "ent:" + str(value.uid)
    if hasattr(value, "name") and hasattr(value, "value"):  # enum
        return "enum:" + str(value.name)
    return "obj:" + type(value).__name__ + ":" + repr(value)[:80]


def entity_attrs(cls) -> list:
    if cls in _ATTR_CACHE:
        return _ATTR_CACHE[cls]
    from geoh5py.shared.utils import KEY_MAP

    names = set()
    for val in getattr(cls, "_attribute_map", {}).values():
        names.add(val.split(":")[0].strip())
    for key in KEY_MAP:
        if key.islower() and isinstance(getattr(cls, key, None), property):
            names.add(key)
    for extra in ("values", "metadata", "options", "file_name", "n_vertices", "n_cells"):
        if isinstance(getattr(cls, extra, None), property):
            names.add(extra)
    names = sorted(n for n in names if n not in SKIP and isinstance(getattr(cls, n, None), property))
    _ATTR_CACHE[cls] = names
    return names


def snap_type(etype) -> dict:
    out = {"uid": str(etype.uid), "cls": type(etype).__name__}
    for name in ("name", "description", "primitive_type", "mapping", "hidden", "number_of_bins",
                 "transparent_no_data", "units"):
        if hasattr(type(etype), name):
            try:
                out[name] = canon_value(getattr(etype, name))
            except Exception as exc:
                out[name] = "EXC:" + type(exc).__name__
    vmap = getattr(etype, "value_map", None)
    if vmap is not None:
        out["value_map"] = canon_value(dict(vmap.map))
    cmap = getattr(etype, "color_map", None)
    if cmap is not None:
        out["color_map"] = [canon_value(cmap.name), canon_value(cmap.values)]
    return out


def base_class_name(entity) -> str:
    """Public class name (dynamic Concatenated*/Concatenator* wrappers keep their base name)."""
    return type(entity).__name__


def snap_entity(entity, with_type=True) -> dict:
    cls = type(entity)
    node = {
        "cls": base_class_name(entity),
        "parent": str(entity.parent.uid) if getattr(entity, "parent", None) is not None else None,
    }
    for name in entity_attrs(cls):
        try:
            node[name] = canon_value(getattr(entity, name))
        except Exception as exc:
            node[name] = "EXC:" + type(exc).__name__ + ":" + str(exc)[:80]
    if with_type:
        try:
            node["type"] = snap_type(entity.entity_type)
        except Exception as exc:
            node["type"] = "EXC:" + type(exc).__name__
    if isinstance(getattr(cls, "property_groups", None), property):
        pgs = getattr(entity, "property_groups", None) or []
        node["pgs"] = {
            str(pg.uid): {
                "name": pg.name,
                "association": canon_value(pg.association),
                "type": pg.property_group_type,
                "props": [str(u) for u in (pg.properties or [])],
            }
            for pg in pgs
        }
    if hasattr(entity, "children"):
        kids = [c for c in entity.children if hasattr(c, "entity_type")]
        node["children"] = sorted(str(c.uid) for c in kids)
        node["n_child_entries"] = len(kids)
    return node


def apisnap(ws, with_listings=True) -> dict:
    """Walk the tree from ws.root; returns {'nodes': {uid: node}, 'listings': {...}, 'dups': [...]}"""
    nodes: dict = {}
    dups: list = []
    pg_children: dict = {}

    def walk(entity):
        key = str(entity.uid)
        if key in nodes:
            dups.append(key)
            return
        nodes[key] = snap_entity(entity)
        if "pgs" in nodes[key]:
            # property groups sit in the child list too: it must name exactly the groups `property_groups` gives
            pg_children[key] = sorted(str(c.uid) for c in entity.children if not hasattr(c, "entity_type"))
        for child in getattr(entity, "children", []) or []:
            if hasattr(child, "entity_type"):
                walk(child)

    root = ws.root
    walk(root)
    out = {"nodes": nodes, "dups": dups, "root": str(root.uid), "pg_children": pg_children}
    if with_listings:
        listings = {}
        for name in ("groups", "objects", "data", "property_groups", "types"):
            try:
                listings[name] = sorted(str(e.uid) for e in getattr(ws, name))
            except Exception as exc:  # a listing getter of the library raised
                listings[name] = "EXC:" + type(exc).__name__ + ":" + str(exc)[:120]
        out["listings"] = listings
    return out


def diff_nodes(a: dict, b: dict, ignore=()) -> list:
    """List of (uid, field, a, b) differences between two node maps."""
    out = []
    for uid in sorted(set(a) | set(b)):
        if uid not in a:
            out.append((uid, "<missing-in-first>", None, b[uid].get("cls")))
            continue
        if uid not in b:
            out.append((uid, "<missing-in-second>", a[uid].get("cls"), None))
            continue
        na, nb = a[uid], b[uid]
        for field in sorted(set(na) | set(nb)):
            if field in ignore:
                continue
            if na.get(field) != nb.get(field):
                out.append((uid, field, na.get(field), nb.get(field)))
    return out
