"""Common machinery: check protocol, case results, canonical hashing, ddmin shrinker, findings."""
from __future__ import annotations

import fnmatch
import hashlib
import json
import os
import traceback
from dataclasses import dataclass, field
from pathlib import Path

VERIF = Path(__file__).resolve().parent.parent
FINDINGS_FILE = VERIF / "known_findings.json"
# evidence and replay files of a run go under /verif unless VP_OUT names another directory (used when a seeded change
# is evaluated, so that such runs never touch the evidence of the unchanged tree)
OUT_ROOT = Path(os.environ["VP_OUT"]) if os.environ.get("VP_OUT") else VERIF


class HarnessError(Exception):
    """Raised for faults of the verification machinery itself (exit 2, never VIOLATION)."""


@dataclass
class Fail:
    sig: str  # stable signature  <prop>/<clause>/<op kind>/<class or label>/<condition>
    msg: str  # human readable detail

    def to_json(self):
        return {"sig": self.sig, "msg": self.msg[:2000]}


@dataclass
class CaseResult:
    fails: list = field(default_factory=list)
    nontrivial: bool = False
    labels: list = field(default_factory=list)  # classification labels (distribution counters)
    counters: dict = field(default_factory=dict)  # numeric counters to be summed
    key: str | None = None  # distinctness key (default: hash of the program)
    keys: list = field(default_factory=list)  # several non-trivial sub-cases (e.g. one per enumerated fault)
    evals: int = 1  # number of evaluations this case stands for (fault enumeration: one per fault)
    info: dict = field(default_factory=dict)  # free-form, for samples

    def fail(self, sig: str, msg: str = ""):
        self.fails.append(Fail(sig, msg))

    def label(self, *names):
        for name in names:
            if name not in self.labels:
                self.labels.append(name)

    def count(self, name, inc=1):
        self.counters[name] = self.counters.get(name, 0) + inc


def canon(obj) -> str:
    return json.dumps(obj, sort_keys=True, separators=(",", ":"), default=str)


def phash(obj) -> str:
    return hashlib.sha1(canon(obj).encode()).hexdigest()[:16]


class Check:
    """Protocol every property check implements (one module per property in vp/props)."""

    pid = "C00"
    level = "exploration"
    rule = ""
    assumptions: list = []
    # budgets: tier -> (examples per shard, shards)
    budgets = {"quick": (100, 16), "thorough": (1500, 16)}

    def strategy(self, tier: str):
        """Hypothesis strategy generating JSON-able programs."""
        raise NotImplementedError

    def enumerated(self, tier: str) -> list:
        """Finite part of the domain, enumerated completely on every run (may be empty)."""
        return []

    exhaustive_note = ""

    def run_case(self, program) -> CaseResult:
        raise NotImplementedError

    # -- shrinking -----------------------------------------------------------------
    def shrink_candidates(self, program):
        """Yield structurally simpler programs (after ddmin over program['ops'])."""
        return []

    ops_key = "ops"

    # -- known findings: guards -----------------------------------------------------
    def finalize(self, tier, merged: dict):
        """Hook to post-process merged coverage (e.g. pairs_total/pairs_covered)."""
        return merged


def safe_run(check: Check, program) -> CaseResult:
    """Run one case; exceptions raised by /verif code are harness errors."""
    from . import env

    env.seed_uids(canon(program))
    env.reset_library_state()
    try:
        res = check.run_case(program)
    except HarnessError:
        raise
    except Exception as exc:
        # An exception whose innermost frame lies in the library (geoh5py / h5py / numpy called by it) escaped a
        # place where the harness expected the call to succeed (open, close, observation): that is a verdict about the
        # library, not a fault of the machinery. Exceptions raised by /verif code itself are harness errors.
        frames = traceback.extract_tb(exc.__traceback__)
        inner = frames[-1] if frames else None
        lib_frames = [f for f in frames if "/geoh5py/" in f.filename]
        own_last = inner is not None and str(VERIF) in inner.filename
        if lib_frames and not own_last:
            res = CaseResult()
            where = lib_frames[-1]
            caller = next((f for f in reversed(frames) if str(VERIF) in f.filename), None)
            res.fail(f"{check.pid}/library-exception/{caller.name if caller else '?'}/{type(exc).__name__}/{where.name}",
                     f"{type(exc).__name__}: {str(exc)[:300]} (in {where.filename.split('/geoh5py/')[-1]}:{where.lineno}, "
                     f"called from {caller.name if caller else '?'})")
            res.key = phash(program)
            env.clear_scratch()
            return res
        raise HarnessError(
            f"harness exception in {check.pid}: {type(exc).__name__}: {exc}\n"
            + traceback.format_exc()
            + "\nprogram="
            + canon(program)[:4000]
        ) from exc
    finally:
        env.clear_scratch()
    if res.key is None:
        res.key = phash(program)
    return res


# ---------------------------------------------------------------------------- findings
def load_findings(pid: str | None = None) -> list:
    if not FINDINGS_FILE.exists():
        return []
    data = json.loads(FINDINGS_FILE.read_text())
    entries = data.get("findings", [])
    if pid is not None:
        entries = [e for e in entries if e["property"] == pid]
    return entries


def match_finding(sig: str, findings: list):
    for entry in findings:
        if entry.get("status") != "open":
            continue
        for pat in entry.get("signatures", []):
            if fnmatch.fnmatchcase(sig, pat):
                return entry
    return None


# ---------------------------------------------------------------------------- shrinking
def ddmin_ops(check: Check, program: dict, sig: str, budget: int = 150):
    """Minimise program[ops_key] (a list) keeping a failure with the same signature.

    Bounded by a number of re-executions, never by time. Returns (program, executions)."""
    key = check.ops_key
    runs = 0

    def still_fails(prog) -> bool:
        nonlocal runs
        runs += 1
        try:
            res = safe_run(check, prog)
        except HarnessError:
            return False
        return any(f.sig == sig for f in res.fails)

    best = program
    if isinstance(program, dict) and isinstance(program.get(key), list):
        ops = list(program[key])
        n = 2
        while len(ops) >= 2 and runs < budget:
            chunk = max(1, len(ops) // n)
            reduced = False
            for start in range(0, len(ops), chunk):
                cand_ops = ops[:start] + ops[start + chunk:]
                cand = dict(best)
                cand[key] = cand_ops
                if runs >= budget:
                    break
                if still_fails(cand):
                    ops = cand_ops
                    best = cand
                    n = max(n - 1, 2)
                    reduced = True
                    break
            if not reduced:
                if chunk == 1:
                    break
                n = min(len(ops), n * 2)
        # single removals pass
        i = 0
        while i < len(ops) and runs < budget:
            cand_ops = ops[:i] + ops[i + 1:]
            cand = dict(best)
            cand[key] = cand_ops
            if still_fails(cand):
                ops = cand_ops
                best = cand
            else:
                i += 1
    # property specific simplifications
    progress = True
    while progress and runs < budget:
        progress = False
        for cand in check.shrink_candidates(best):
            if runs >= budget:
                break
            if canon(cand) != canon(best) and still_fails(cand):
                best = cand
                progress = True
                break
    return best, runs


def write_replay(pid: str, program, sig: str, msg: str, seed: int, tier: str) -> Path:
    directory = OUT_ROOT / "replays" / pid
    directory.mkdir(parents=True, exist_ok=True)
    path = directory / f"{phash([program, sig])}.json"
    path.write_text(
        json.dumps(
            {"property": pid, "signature": sig, "message": msg[:4000], "seed": seed, "tier": tier,
             "program": program},
            indent=1,
            default=str,
        )
    )
    return path


def env_seed() -> int:
    try:
        return int(os.environ.get("VERIF_SEED", "1"))
    except ValueError:
        return 1
