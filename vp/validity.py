"""Structural validity predicate for a geoh5 file (C02), written from docs/content/geoh5_format.

Works on a `rawsnap` only (plain h5py view)."""
from __future__ import annotations

import re

from .rawsnap import CONTAINERS, TYPE_OF

UID_RE = re.compile(r"^\{[0-9a-fA-F]{8}-[0-9a-fA-F]{4}-[0-9a-fA-F]{4}-[0-9a-fA-F]{4}-[0-9a-fA-F]{12}\}$")


def check_valid(snap: dict) -> list:
    """Return list of (clause, detail) violations of the documented layout."""
    bad = []
    if len(snap["tops"]) != 1:
        bad.append(("one-project-group", f"top-level members {snap['tops']}"))
        return bad
    for name in snap["missing"]:
        bad.append(("container-missing", name))
    for tname in ("Data types", "Group types", "Object types"):
        if tname not in snap["types"]:
            bad.append(("container-missing", f"Types/{tname}"))
    if snap["root_link"] is None:
        bad.append(("root-link-missing", ""))
    elif snap["root_link"] != "HardLink":
        bad.append(("root-link-not-hard", snap["root_link"]))

    # every member named by uid with matching ID
    all_uids: dict = {}
    addr_index: dict = {}
    for cname in CONTAINERS:
        for uid, node in snap["containers"].get(cname, {}).items():
            if not UID_RE.match(uid):
                bad.append(("member-name-not-uid", f"{cname}/{uid}"))
            ident = node["attrs"].get("ID")
            if ident is None:
                bad.append(("id-attr-missing", f"{cname}/{uid}"))
            elif str(ident).lower() != uid.lower():
                bad.append(("id-attr-mismatch", f"{cname}/{uid} has ID {ident}"))
            if uid.lower() in all_uids:
                bad.append(("uid-twice", f"{uid} in {all_uids[uid.lower()]} and {cname}"))
            all_uids[uid.lower()] = cname
            addr_index[(cname, uid)] = node["addr"]
            # type link
            if node["type_addr"] is None:
                bad.append(("type-link-missing", f"{cname}/{uid}"))
            else:
                tnodes = snap["types"].get(TYPE_OF[cname], {})
                tid = node["type_id"]
                target = None
                for tuid, tnode in tnodes.items():
                    if tid is not None and tuid.lower() == str(tid).lower():
                        target = tnode
                if target is None:
                    bad.append(("type-not-under-types", f"{cname}/{uid} type {tid}"))
                elif target["addr"] != node["type_addr"]:
                    bad.append(("type-link-not-shared-object", f"{cname}/{uid} type {tid}"))
            for other in node["other"]:
                if other[1] != "group":
                    bad.append(("non-hard-link", f"{cname}/{uid}/{other[0]} {other[1]}"))
    # type uids unique across type containers / ID attr
    seen_types: dict = {}
    for tname, tnodes in snap["types"].items():
        for tuid, tnode in tnodes.items():
            if tuid.lower() in seen_types:
                bad.append(("type-uid-twice", f"{tuid} in {seen_types[tuid.lower()]} and {tname}"))
            seen_types[tuid.lower()] = tname
            ident = tnode["attrs"].get("ID")
            if ident is not None and str(ident).lower() != tuid.lower():
                bad.append(("type-id-attr-mismatch", f"{tname}/{tuid} has ID {ident}"))

    # root
    root_uid = None
    if snap["root_addr"] is not None:
        for uid, node in snap["containers"].get("Groups", {}).items():
            if node["addr"] == snap["root_addr"]:
                root_uid = uid
        if root_uid is None:
            bad.append(("root-not-in-groups", ""))

    # hierarchy links
    indegree = {key: 0 for key in addr_index}
    edges: dict = {key: [] for key in addr_index}
    for cname in CONTAINERS:
        for uid, node in snap["containers"].get(cname, {}).items():
            for sub, entries in node["children"].items():
                for child, addr in entries.items():
                    if not isinstance(addr, int):
                        bad.append(("child-link-not-hard", f"{cname}/{uid}/{sub}/{child} {addr}"))
                        continue
                    if (sub, child) not in addr_index:
                        bad.append(("child-not-in-flat-container", f"{cname}/{uid}/{sub}/{child}"))
                        continue
                    if addr_index[(sub, child)] != addr:
                        bad.append(("child-link-not-same-object", f"{cname}/{uid}/{sub}/{child}"))
                    indegree[(sub, child)] += 1
                    edges[(cname, uid)].append((sub, child))
            # property groups list only data children of the same object
            if node["pgs"]:
                kids = {k.lower() for k in node["children"].get("Data", {})}
                for pg_uid, attrs in node["pgs"].items():
                    props = attrs.get("Properties")
                    if props is None:
                        continue
                    if isinstance(props, str):
                        props = [props]
                    for prop in props:
                        if str(prop).lower() not in kids:
                            bad.append(("pg-lists-non-child", f"{cname}/{uid} pg {pg_uid} lists {prop}"))
    for key, deg in indegree.items():
        if root_uid is not None and key == ("Groups", root_uid):
            if deg != 0:
                bad.append(("root-has-parent", f"{deg}"))
            continue
        if deg == 0:
            bad.append(("orphan-no-parent", f"{key[0]}/{key[1]}"))
        elif deg > 1:
            bad.append(("several-parents", f"{key[0]}/{key[1]} x{deg}"))
    # reachability from root
    if root_uid is not None:
        seen = set()
        stack = [("Groups", root_uid)]
        while stack:
            cur = stack.pop()
            if cur in seen:
                continue
            seen.add(cur)
            stack.extend(edges.get(cur, []))
        for key in addr_index:
            if key not in seen and indegree[key] > 0:
                bad.append(("unreachable-from-root", f"{key[0]}/{key[1]}"))
    return bad
