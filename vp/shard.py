"""One shard of a check: enumerated slice + Hypothesis-generated programs, results to a JSON file."""
from __future__ import annotations

import importlib
import json
import sys
import time
import traceback

from . import env  # noqa: F401  (patches uuid4 before geoh5py is imported)
from .core import VERIF, HarnessError, canon, safe_run


def load_check(pid: str):
    module = importlib.import_module(f"vp.props.{pid.lower()}")
    return module.CHECK


def run_shard(pid, tier, seed, shard, nshards, examples):
    import hypothesis
    from hypothesis import HealthCheck, Phase, given, settings

    check = load_check(pid)
    out = {
        "evaluations": 0,
        "enumerated": 0,
        "keys": set(),
        "labels": {},
        "counters": {},
        "samples": [],
        "failures": {},
        "harness_error": None,
    }

    def record(program, origin):
        res = safe_run(check, program)
        out["evaluations"] += max(1, int(res.evals))
        out["programs"] = out.get("programs", 0) + 1
        if origin == "enum":
            out["enumerated"] += 1
        for lab in res.labels:
            out["labels"][lab] = out["labels"].get(lab, 0) + 1
        for key, val in res.counters.items():
            out["counters"][key] = out["counters"].get(key, 0) + val
        if res.keys:
            out["keys"].update(res.keys)
        if res.nontrivial:
            if not res.keys:
                out["keys"].add(res.key)
            if len(out["samples"]) < 3:
                out["samples"].append({"program": program, "info": res.info, "labels": res.labels})
        elif not out["samples"] and origin == "gen":
            pass
        for f in res.fails:
            slot = out["failures"].get(f.sig)
            size = len(canon(program))
            if slot is None:
                out["failures"][f.sig] = {"program": program, "msg": f.msg, "count": 1, "size": size}
            else:
                slot["count"] += 1
                if size < slot["size"]:
                    slot.update(program=program, msg=f.msg, size=size)

    enum = check.enumerated(tier)
    for i, program in enumerate(enum):
        if i % nshards == shard:
            record(program, "enum")

    # saved inputs: programs that once exposed a (seeded or real) defect, kept as a seconds-long regression corpus
    corpus_dir = VERIF / "corpus" / pid
    if corpus_dir.is_dir():
        for i, path in enumerate(sorted(corpus_dir.glob("*.json"))):
            if i % nshards == shard:
                record(json.loads(path.read_text())["program"], "corpus")
                out["corpus"] = out.get("corpus", 0) + 1

    if examples > 0:
        strat = check.strategy(tier)
        if strat is not None:

            @hypothesis.seed(seed * 1000003 + shard)
            @settings(
                max_examples=examples,
                database=None,
                deadline=None,
                derandomize=False,
                report_multiple_bugs=False,
                phases=[Phase.generate],
                suppress_health_check=[HealthCheck.too_slow, HealthCheck.data_too_large,
                                       HealthCheck.large_base_example],
            )
            @given(strat)
            def drive(program):
                record(program, "gen")

            drive()
    out["keys"] = sorted(out["keys"])
    return out


def main(argv):
    pid, tier, seed, shard, nshards, examples, outfile = argv
    t0 = time.time()
    try:
        out = run_shard(pid, tier, int(seed), int(shard), int(nshards), int(examples))
    except HarnessError as exc:
        out = {"harness_error": str(exc)}
    except Exception as exc:  # hypothesis health checks etc.
        out = {"harness_error": f"{type(exc).__name__}: {exc}\n{traceback.format_exc()}"}
    out["wall_s"] = time.time() - t0
    with open(outfile, "w") as fh:
        json.dump(out, fh, default=str)
    env.cleanup()
    return 0


if __name__ == "__main__":
    sys.exit(main(sys.argv[1:]))
