"""CLI: ./check <ID> [--tier quick|thorough] [--replay FILE] [--shards N] [--examples N]

exit 0  property held on everything explored (KNOWN-FINDING lines possible)
exit 1  VIOLATION property=<id> replay=<path>
exit 2  fault of the verification machinery (never a verdict)
"""
from __future__ import annotations

import argparse
import json
import os
import subprocess
import sys
import tempfile
import time
from pathlib import Path

from . import env  # noqa: F401
from .core import (
    OUT_ROOT,
    VERIF,
    HarnessError,
    canon,
    ddmin_ops,
    env_seed,
    load_findings,
    match_finding,
    safe_run,
    write_replay,
)
from .shard import load_check


def replay_file(check, path: Path):
    data = json.loads(Path(path).read_text())
    program = data["program"] if isinstance(data, dict) and "program" in data else data
    res = safe_run(check, program)
    return program, res


def run_replay(pid: str, path: str) -> int:
    check = load_check(pid)
    try:
        _, res = replay_file(check, Path(path))
    except HarnessError as exc:
        print(f"HARNESS-ERROR {exc}", file=sys.stderr)
        return 2
    if res.fails:
        for f in res.fails:
            print(f"FAIL {f.sig} :: {f.msg[:500]}")
        print(f"VIOLATION property={pid} replay={path}")
        return 1
    print(f"OK replay {path}: no failing clause (nontrivial={res.nontrivial} labels={res.labels})")
    return 0


def launch_shards(pid, tier, seed, nshards, examples, tmpdir):
    procs = []
    for shard in range(nshards):
        out = os.path.join(tmpdir, f"shard_{shard}.json")
        cmd = [sys.executable, "-W", "ignore", "-m", "vp.shard", pid, tier, str(seed), str(shard),
               str(nshards), str(examples), out]
        err = open(os.path.join(tmpdir, f"shard_{shard}.err"), "w")
        procs.append((shard, out, err, subprocess.Popen(cmd, cwd=str(VERIF), stdout=err, stderr=err)))
    results = []
    for shard, out, err, proc in procs:
        code = proc.wait()
        err.close()
        if code != 0 or not os.path.exists(out):
            tail = Path(err.name).read_text()[-3000:]
            raise HarnessError(f"shard {shard} of {pid} exited with {code}:\n{tail}")
        data = json.loads(Path(out).read_text())
        if data.get("harness_error"):
            raise HarnessError(f"shard {shard} of {pid}: {data['harness_error']}")
        results.append(data)
    return results


def merge(results):
    merged = {"evaluations": 0, "enumerated": 0, "corpus": 0, "keys": set(), "labels": {}, "counters": {},
              "samples": [], "failures": {}}
    for data in results:
        merged["evaluations"] += data["evaluations"]
        merged["enumerated"] += data["enumerated"]
        merged["corpus"] += data.get("corpus", 0)
        merged["keys"].update(data["keys"])
        for k, v in data["labels"].items():
            merged["labels"][k] = merged["labels"].get(k, 0) + v
        for k, v in data["counters"].items():
            merged["counters"][k] = merged["counters"].get(k, 0) + v
        for sample in data["samples"]:
            if len(merged["samples"]) < 4:
                merged["samples"].append(sample)
        for sig, slot in data["failures"].items():
            cur = merged["failures"].get(sig)
            if cur is None:
                merged["failures"][sig] = dict(slot)
            else:
                cur["count"] += slot["count"]
                if slot["size"] < cur["size"]:
                    cur.update(program=slot["program"], msg=slot["msg"], size=slot["size"])
    return merged


def write_evidence(check, tier, seed, merged, wall, violations, known_hits, extra):
    coverage = {
        "evaluations": merged["evaluations"],
        "distinct_nontrivial": len(merged["keys"]),
        "rule": check.rule,
        "samples": merged["samples"] or [{"note": "no non-trivial sample recorded"}],
        "enumerated_cases": merged["enumerated"],
        "corpus_programs_replayed": merged.get("corpus", 0),
        "exhaustive": bool(check.exhaustive_note) and merged["enumerated"] > 0,
        "exhaustive_scope": check.exhaustive_note,
        "distribution": dict(sorted(merged["labels"].items())),
        "counters": dict(sorted(merged["counters"].items())),
        "known_finding_hits": known_hits,
        "failing_signatures": sorted(merged["failures"].keys()),
    }
    coverage.update(extra)
    evidence = {
        "property_id": check.pid,
        "tier": tier,
        "seed": seed,
        "level": check.level,
        "coverage": coverage,
        "assumptions": list(check.assumptions),
        "wall_s": round(wall, 2),
        "violations": violations,
    }
    path = OUT_ROOT / "evidence" / f"{check.pid}.json"
    path.parent.mkdir(parents=True, exist_ok=True)
    path.write_text(json.dumps(evidence, indent=1, default=str))
    return path


def run_check(pid: str, tier: str, nshards: int | None, examples: int | None) -> int:
    t0 = time.time()
    seed = env_seed()
    check = load_check(pid)
    per_shard, shards = check.budgets[tier]
    if nshards:
        shards = nshards
    if examples is not None:
        per_shard = examples
    findings = load_findings(pid)
    violations = []
    known_lines = []

    # ---- replay tier: stored replays of known (open) and fixed findings
    for entry in findings:
        for rel in entry.get("replays", []):
            path = VERIF / rel
            if not path.exists():
                raise HarnessError(f"replay {rel} listed in known_findings.json is missing")
            program, res = replay_file(check, path)
            if entry["status"] == "open":
                if any(match_finding(f.sig, [entry]) for f in res.fails):
                    line = f"KNOWN-FINDING: property={pid} {entry['what']}"
                    if line not in known_lines:
                        known_lines.append(line)
                for f in res.fails:
                    if not match_finding(f.sig, findings):
                        violations.append((f.sig, f.msg, program, str(path)))
            else:  # fixed: pure regression, suppresses nothing
                for f in res.fails:
                    if not match_finding(f.sig, findings):
                        violations.append((f.sig, f.msg, program, str(path)))

    # ---- generated tier
    with tempfile.TemporaryDirectory(prefix="vp_run_") as tmpdir:
        results = launch_shards(pid, tier, seed, shards, per_shard, tmpdir)
    merged = merge(results)
    known_hits = {}
    shrink_left = 400 if tier == "quick" else 2000  # total re-executions spent on shrinking per run
    for sig, slot in sorted(merged["failures"].items()):
        entry = match_finding(sig, findings)
        if entry is not None:
            known_hits[sig] = slot["count"]
            line = f"KNOWN-FINDING: property={pid} {entry['what']}"
            if line not in known_lines:
                known_lines.append(line)
            continue
        if len(violations) >= 12:  # enough distinct reports for one run; the rest is only counted
            extra_unreported = locals().get("extra_unreported", 0) + 1
            continue
        budget = 0 if os.environ.get("VP_NO_SHRINK") else min(120 if tier == "quick" else 400, shrink_left)
        small, runs = (slot["program"], 0) if budget <= 0 else ddmin_ops(check, slot["program"], sig, budget=budget)
        shrink_left -= runs
        res = safe_run(check, small)
        msg = next((f.msg for f in res.fails if f.sig == sig), slot["msg"])
        path = write_replay(pid, small, sig, msg, seed, tier)
        violations.append((sig, msg, small, str(path)))

    extra = check.finalize(tier, merged) or {}
    if not isinstance(extra, dict) or "evaluations" in extra:
        extra = {}
    wall = time.time() - t0
    write_evidence(check, tier, seed, merged, wall, len(violations), known_hits, extra)

    for line in known_lines:
        print(line)
    print(
        f"{pid} tier={tier} seed={seed} evaluations={merged['evaluations']} "
        f"distinct_nontrivial={len(merged['keys'])} failing_signatures={len(merged['failures'])} "
        f"known_hits={sum(known_hits.values())} wall={wall:.1f}s"
    )
    if violations:
        seen = set()
        for sig, msg, _program, path in violations:
            if (sig, path) in seen:
                continue
            seen.add((sig, path))
            print(f"FAIL {sig} :: {msg[:600]}")
            print(f"VIOLATION property={pid} replay={path}")
        return 1
    return 0


def main(argv=None) -> int:
    parser = argparse.ArgumentParser()
    parser.add_argument("pid")
    parser.add_argument("--tier", default=os.environ.get("VERIF_TIER", "quick"),
                        choices=["quick", "thorough"])
    parser.add_argument("--replay")
    parser.add_argument("--shards", type=int)
    parser.add_argument("--examples", type=int)
    args = parser.parse_args(argv)
    pid = args.pid.upper()
    try:
        if args.replay:
            return run_replay(pid, args.replay)
        return run_check(pid, args.tier, args.shards, args.examples)
    except HarnessError as exc:
        print(f"HARNESS-ERROR {exc}", file=sys.stderr)
        return 2
    except Exception as exc:  # pragma: no cover
        import traceback

        print(f"HARNESS-ERROR {type(exc).__name__}: {exc}\n{traceback.format_exc()}", file=sys.stderr)
        return 2
    finally:
        env.cleanup()


if __name__ == "__main__":
    sys.exit(main())
