#!/usr/bin/env python3
"""Markdown table of the seeded changes from /verif/seeded/*/meta.json (for DESIGN.md section 11)."""
import json
from pathlib import Path

VERIF = Path(__file__).resolve().parent.parent
rows = []
for meta_file in sorted((VERIF / "seeded").glob("*/meta.json")):
    m = json.loads(meta_file.read_text())
    notes = (m.get("needs") or "").replace("\n", " ")
    caught = [c for c, r in m.get("checks", {}).items() if r["exit"] == 1]
    missed = [c for c, r in m.get("checks", {}).items() if r["exit"] == 0]
    first = next((r["first_fail"] for r in m.get("checks", {}).values() if r.get("first_fail")), "") or ""
    rows.append((m["seed_id"], m["property"], m.get("repo_tests", ""), m.get("demo_mutated_exit"), ", ".join(caught) or "-",
                 ", ".join(missed) or "-", first[5:120].replace("|", "/")))
print("| seed | property | repo tests with change | demo exit with change | caught by | run but not caught by | first failing clause |")
print("|---|---|---|---|---|---|---|")
for row in rows:
    print("| " + " | ".join(str(x) for x in row) + " |")
