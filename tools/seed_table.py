#!/usr/bin/env python3
"""Markdown table of the seeded changes from /verif/seeded/*/meta.json (for DESIGN.md section 11)."""
import json
from pathlib import Path

VERIF = Path(__file__).resolve().parent.parent
rows = []
for meta_file in sorted((VERIF / "seeded").glob("*/meta.json")):
    m = json.loads(meta_file.read_text())
    lines = [l.strip() for l in (m.get("needs") or "").splitlines() if l.strip()]
    title = (lines[0].lstrip("# ").split(" - ", 1)[-1] if lines else "").replace("|", "/")
    trig = next((l for l in lines if l.lower().lstrip("-* ").startswith("trigger")), "")
    trig = trig.lstrip("-* ").replace("|", "/")[:260]
    note = m.get("note", "")
    caught = [c for c, r in m.get("checks", {}).items() if r["exit"] == 1]
    missed = [c for c, r in m.get("checks", {}).items() if r["exit"] == 0]
    first = next((r["first_fail"] for r in m.get("checks", {}).values() if r.get("first_fail")), "") or ""
    rows.append((m["seed_id"], title, trig, m.get("repo_tests", "").split(",")[0], m.get("demo_mutated_exit"),
                 ", ".join(caught) or "-", ", ".join(missed) or "-", (first[5:110].replace("|", "/") + (" " + note if note else "")).strip()))
print("| seed | change | what it needs to manifest | repo tests with change | demo exit with change | caught by | run, not caught by | first failing clause / note |")
print("|---|---|---|---|---|---|---|---|")
for row in rows:
    print("| " + " | ".join(str(x) for x in row) + " |")
