#!/usr/bin/env python3
"""Evaluate a seeded change: tools/eval_seed.py <src dir with patch.diff demo.py notes.md> <seed id> <property> [checks...]

1. scratch worktree of /repo HEAD under /tmp, `git apply` the patch (never touches /repo itself)
2. repository test suite with the change (must still pass), demo on the clean tree (exit 0) and with the change (!= 0)
3. runs the given checks (default: the property's own check, quick tier) with VP_REPO=<worktree>
4. stores /verif/seeded/<seed id>/{patch.diff, demo.py, notes.md, meta.json}; removes the worktree
"""
import json
import os
import shutil
import subprocess
import sys
import time
from pathlib import Path

VERIF = Path(__file__).resolve().parent.parent


def sh(cmd, **kw):
    return subprocess.run(cmd, shell=True, capture_output=True, text=True, **kw)


def main():
    src, seed_id, prop = Path(sys.argv[1]), sys.argv[2], sys.argv[3]
    checks = sys.argv[4:] or [prop]
    wt = Path(f"/tmp/ev_{seed_id}")
    sh(f"git -C /repo worktree remove --force {wt}")
    out = sh(f"git -C /repo worktree add -q {wt} HEAD")
    meta = {"seed_id": seed_id, "property": prop, "repo_head": sh("git -C /repo log --format=%h -1").stdout.strip()}
    try:
        demo = src / "demo.py"
        env = dict(os.environ, PYTHONPATH=str(wt), PATH=f"{VERIF}/stubs:" + os.environ["PATH"])
        clean = sh(f"/venv/bin/python -W ignore {demo}", env=env, cwd=str(wt))
        meta["demo_clean_exit"] = clean.returncode
        applied = sh(f"git -C {wt} apply --whitespace=nowarn {src / 'patch.diff'}")
        if applied.returncode != 0:
            applied = sh(f"git -C {wt} apply --ignore-whitespace --whitespace=nowarn {src / 'patch.diff'}")
        meta["patch_applies"] = applied.returncode == 0
        if applied.returncode != 0:
            meta["apply_error"] = applied.stderr[-400:]
            print(json.dumps(meta, indent=1))
            return 1
        mutated = sh(f"/venv/bin/python -W ignore {demo}", env=env, cwd=str(wt))
        meta["demo_mutated_exit"] = mutated.returncode
        meta["demo_mutated_tail"] = (mutated.stdout + mutated.stderr)[-300:]
        tests = sh("/venv/bin/python -m pytest -q -p no:cacheprovider --timeout=900 -x 2>&1 | grep -E 'passed|failed' | tail -1",
                   env=env, cwd=str(wt))
        meta["repo_tests"] = tests.stdout.strip()
        meta["checks"] = {}
        for check in checks:
            t0 = time.time()
            out_dir = f"/tmp/vpout_{seed_id}"
            run = sh(f"VP_REPO={wt} VP_OUT={out_dir} ./check {check} --tier quick", cwd=str(VERIF))
            if os.environ.get("VP_SAVE_CORPUS"):
                # keep up to two of the shrunk programs that exposed the change as regression inputs for the check
                keep = sorted(Path(out_dir, "replays", check).glob("*.json"))[:2]
                for n, rep in enumerate(keep):
                    dest_dir = VERIF / "corpus" / check
                    dest_dir.mkdir(parents=True, exist_ok=True)
                    shutil.copy(rep, dest_dir / f"{seed_id}_{n}.json")
            shutil.rmtree(out_dir, ignore_errors=True)
            lines = [l for l in run.stdout.splitlines() if l.startswith(("VIOLATION", "FAIL"))]
            meta["checks"][check] = {
                "exit": run.returncode, "wall_s": round(time.time() - t0, 1),
                "violations": len([l for l in lines if l.startswith("VIOLATION")]),
                "first_fail": next((l[:300] for l in lines if l.startswith("FAIL")), None),
            }
        if os.environ.get("VP_SAVE_CORPUS"):
            print(json.dumps({k: v for k, v in meta.items() if k != "needs"}, indent=1))
            return 0
        dest = VERIF / "seeded" / seed_id
        dest.mkdir(parents=True, exist_ok=True)
        for name in ("patch.diff", "demo.py", "notes.md"):
            if (src / name).exists() and (src / name).resolve() != (dest / name).resolve():
                shutil.copy(src / name, dest / name)
        meta["needs"] = (src / "notes.md").read_text()[:1500] if (src / "notes.md").exists() else ""
        meta["ran"] = [f"git apply patch.diff in scratch worktree {wt}", "repo pytest suite", "demo.py clean/mutated",
                       *[f"VP_REPO={wt} ./check {c} --tier quick" for c in checks]]
        (dest / "meta.json").write_text(json.dumps(meta, indent=1))
        print(json.dumps({k: v for k, v in meta.items() if k != "needs"}, indent=1))
        return 0
    finally:
        sh(f"git -C /repo worktree remove --force {wt}")


if __name__ == "__main__":
    sys.exit(main())
