#!/bin/bash
# Re-evaluate the seeded changes kept under /verif/seeded (scratch worktrees under /tmp, removed afterwards).
# usage: tools/eval_all_seeds.sh [C01 C02 ...]      (default: all properties; run several instances in parallel for speed)
#        VP_SAVE_CORPUS=1 tools/eval_all_seeds.sh   saves shrunk exposing programs under /verif/corpus instead of meta.json
cd "$(dirname "$0")/.."
props=${@:-$(seq -f "C%02g" 1 20)}
for p in $props; do
  checks=$p
  [ $p = C01 ] && checks="C01 C06"
  [ $p = C09 ] && checks="C09 C04"
  [ $p = C13 ] && checks="C13 C17"
  for k in 1 2 3 4; do
    src=seeded/${p}-$k
    [ -f $src/patch.diff ] && python3 tools/eval_seed.py $src ${p}-$k $p $checks > /tmp/evalS_${p}_$k.log 2>&1
  done
done
