#!/usr/bin/env python3
"""Consistency of known_findings.json: fixed commits exist in /repo, replays exist, fixed replays pass on /repo."""
import json
import subprocess
import sys
from pathlib import Path

VERIF = Path(__file__).resolve().parent.parent
data = json.loads((VERIF / "known_findings.json").read_text())
log = subprocess.check_output(["git", "-C", "/repo", "log", "--format=%h"]).decode().split()
bad = 0
for entry in data["findings"]:
    if entry["status"] == "fixed" and entry.get("commit") not in log:
        print("MISSING COMMIT", entry.get("commit"), entry["what"][:80])
        bad += 1
    for rel in entry.get("replays", []):
        if not (VERIF / rel).exists():
            print("MISSING REPLAY", rel)
            bad += 1
print(len(data["findings"]), "entries,", bad, "problems")
sys.exit(1 if bad else 0)
