#!/usr/bin/env python3
"""Regenerate /verif/MANIFEST.json from the table below (keeps the file valid and consistent)."""
import json
from pathlib import Path

HERE = Path(__file__).resolve().parent.parent

CHECKS = {
    # id: (engine, level, technique, level text, level note, design ref)
    "C01": ("tree", "exploration",
            "model-based stateful PBT (Hypothesis-generated operation programs vs reference model + re-open round trip, ddmin shrinking)",
            "Generated histories of public operations are executed against geoh5py and a reference tree model; the live tree is compared with the model after every mutation and with a fresh opening of the file at every re-open. Exploration is the right level: the property quantifies over unbounded histories and schedules, no finite enumeration exists.",
            "Trusts h5py/HDF5, the apisnap walker (public getters) and the model's operation semantics from DESIGN.md 2.7; GC only at operation boundaries.",
            "DESIGN.md 3/C01"),
    "C02": ("tree", "exploration",
            "stateful PBT + validity predicate over an independent h5py reader (rawsnap), ddmin shrinking",
            "Generated histories (removals, re-parenting, same/cross-workspace copies) are executed and after every close the file is read with plain h5py and checked against a layout predicate written from the format documentation (hard-link identity by HDF5 object address, in-degree, reachability, uid uniqueness, type sharing, property-group membership).",
            "Validity is the documented layout; trusts h5py object addresses (h5o.get_info) as identity of HDF5 objects.",
            "DESIGN.md 3/C02"),
    "C05": ("tree", "exploration",
            "stateful PBT with reference model + absence invariants (API lookups, listings, raw file) after removals, ddmin shrinking",
            "Removal-heavy generated histories; after each removal, after GC and after re-open no lookup, listing, child list, property group or raw file entry may yield a removed entity; survivors must equal the model and later operations must succeed; protected entities must be refused without change.",
            "The harness drops its own references and runs gc.collect() before asserting absence; raw absence is asserted after close only.",
            "DESIGN.md 3/C05"),
    "C06": ("tree", "exploration",
            "stateful PBT with explicit collision operations, uid invariants after every step, differential refusal-without-side-effects (API snapshot + raw digests)",
            "Generated histories mix ordinary creation with creation under caller-supplied identifiers (fresh, owned by a live entity of the same or another kind, of a removed entity), copies within and across workspaces, removals and re-opens; uniqueness and lookup invariants are evaluated after every mutation and a refused creation must leave API snapshot, listings and raw per-node digests unchanged.",
            "Type/entity uid overlap is not constrained by the statement and not checked; CustomGroup is exempt from the one-type-per-class clause.",
            "DESIGN.md 3/C06"),
    "C09": ("tree", "exploration",
            "metamorphic isolation check: per-node split digests from an independent h5py reader before/after every generated mutation; identity programs open/read/close in r and r+",
            "Every mutating call of every generated history is a test point: digests of all stored nodes, types and the project header may differ only for the target, the child/property-group parts of affected parents, created/deleted nodes and appearing/disappearing types. Open/read-everything/close must change nothing (bytes too in mode r).",
            "Digest granularity: attrs / datasets / children / type / property groups / concatenated blocks per node; HDF5 housekeeping in r+ mode is not compared.",
            "DESIGN.md 3/C09"),
    "C03": ("values", "exploration",
            "exhaustive enumeration of reflectively discovered (class, settable attribute) pairs + Hypothesis multi-assignment orders; round-trip oracle (getter after assign, getter after re-open, live-vs-file snapshot)",
            "The (class, attribute) pair dimension is finite and enumerated completely on every run (642 pairs: every object/group/data class incl. the view setters parts and coordinate_reference_system, data/object/group types, workspace header); values and assignment orders are sampled. Each accepted assignment must be what a fresh reader of the closed file sees, and all other attributes must agree between memory and file.",
            "Value domains come from a table keyed by attribute name (vp/engines/values.py::make_value); pairs without a domain and pairs whose setter rejects the value are listed in the evidence, not claimed.",
            "DESIGN.md 3/C03"),
    "C08": ("values", "exploration",
            "differential PBT against a reference codec written from the format documentation (verdict + live / re-opened / raw h5py read-back)",
            "Generated arrays of every NumPy numeric dtype with boundary-pool magnitudes, Unicode/byte strings, metadata, comments, blobs and value maps are written through the API; acceptance and the three read-backs are compared with an independent codec. Exploration fits: the input space is unbounded, the boundary pool targets the narrow regions.",
            "Under-specified classes (bool->float, |int|>2^53->float, NaN->bool, NUL in strings, empty blob) are counted, not judged; byte strings compared by decoded content.",
            "DESIGN.md 3/C08"),
    "C07": ("geomdata", "exploration",
            "model-based PBT with provenance tags per vertex/cell (reference model in plain Python), failure-consistency clause, ddmin shrinking",
            "Generated point/curve/surface geometries (unreferenced vertices, repeated and unordered cells by construction) with data of every kind, then sequences of add/assign (short, exact, long), remove_vertices/remove_cells (unsorted, repeated, first/last/all-but-one), masked copies and re-opens; after every step every data array must have one entry per element, each survivor keeps the value of its provenance tag, cells stay in range and join the same coordinates; a raising operation must leave a state equal to the pre- or post-state.",
            "Index lists are reduced modulo the element count (out-of-range indices are a documented refusal, not generated); at least one vertex is always kept.",
            "DESIGN.md 3/C07"),
    "C04": ("concat", "exploration",
            "model-based stateful PBT over drillhole groups (reference model hole->table->data) + raw tiling / attribute-record predicate over an independent h5py reader, both format encodings",
            "Generated histories of add / update / rename / remove (workspace or parent) / copy / re-open over holes that share data names; every hole and data set must read back the model values, the group-wide table must equal the per-hole rows, and after each close every concatenated array must be exactly tiled by its index rows with exactly one attribute record per live hole, data set and property group.",
            "Values are float32-representable; one kind per data name and group (one concatenated array per label); duplicate names in a hole are a documented refusal and not generated.",
            "DESIGN.md 3/C04"),
    "C12": ("copygrid", "exploration",
            "exhaustive grid class x target x options + Hypothesis contents/edits; metamorphic oracle (uid-free recursive snapshot equality, source snapshot + raw digests unchanged, edits of the copy must not show in the source)",
            "Every object class (incl. survey classes), group class, data kind and a drillhole group is copied to the same parent, another parent and a second workspace with every copy_children/clear_cache combination (grid enumerated completely each run), followed by generated edits of the copy and a re-open of both files.",
            "Equality is judged on the public-getter snapshot (apisnap); shared memory between arrays is reported as a counter, the observable consequence is tested through read-modify-assign edits of the copy.",
            "DESIGN.md 3/C12"),
    "C10": ("readonly", "exploration",
            "differential stateful PBT: generated call programs against a read-only workspace and a writable twin of the same file; byte hash + handle-mode invariants, must-raise decided by the twin's digest change",
            "A generated file is opened read-only and a generated program of getters, setters, creations, removals, copies, property-group edits and helper calls (ui.json loading, monitoring export, fetch_active_workspace, path2workspace) is applied; after every call the SHA-256 of the file and the handle mode must be unchanged, and every call that changes a writable twin must have raised on the read-only side.",
            "An explicit open(mode='r+') by the user is outside the domain; the in-memory state after a refused write is not constrained.",
            "DESIGN.md 3/C10"),
    "C11": ("closing", "exploration",
            "fault injection at generated crash points inside with-blocks (Python exception between two operations) x closers; differential closed-access check against an open twin; handle accounting via h5py object counts",
            "Generated tree programs are cut at a drawn crash point and the with-block is left by every kind of closer (normal, private exception, explicit close, fetch_active_workspace mode change, save_as, exception after close). The file must re-open, be structurally valid and equal the model of the completed operations, no HDF5 identifier may stay open, previously obtained entities must raise the closed-file error or return what the file holds, and open() must restore access.",
            "Crash points are between API operations only (no process kill); one refused setter per case because a refused setter may legitimately have changed memory.",
            "DESIGN.md 3/C11"),
    "C19": ("faults", "fault_enumeration",
            "exhaustive single-deletion fault enumeration over generated files (every attribute and every link on the canonical paths), differential against the intact file's API snapshot",
            "For each generated file every single deletion of one attribute or one link is applied to a copy with plain h5py and the copy is opened read-only; optional items must be tolerated with all entities present and unrelated content unchanged, mandatory/other items may raise or drop only the described entities and their descendants. The per-file fault space is enumerated completely; files are sampled.",
            "Classification optional / mandatory / other follows the property statement and the '(Optional)' / default marks of the format documentation; only single deletions.",
            "DESIGN.md 3/C19"),
    "C13": ("spatial", "exploration",
            "PBT with an independent point-in-closed-box reference on lattice coordinates (exact boundary cases by construction) and face-between-centroids boxes for rotated/dipped grids; oracle for masks, copies, sub-grids and groups",
            "Generated point clouds, curves, surfaces (arbitrary cells), 2-D grids (any rotation/dip/negative sizes), block models, octrees, drillholes and groups are selected with 2-D/3-D boxes including degenerate, touching, thin and disjoint ones, inverse both ways; mask_by_extent and copy_from_extent are compared with a pure-Python reference selection (cells keep the same coordinates, data follow their elements, 2-D grids give the smallest covering sub-grid with outside values blanked).",
            "Coordinates and box faces are half-integer (exact in floating point); for arbitrary grid angles box faces lie midway between sorted centroid coordinates so ties cannot occur; tolerance 1e-9*scale for rotated centroids.",
            "DESIGN.md 3/C13"),
    "C16": ("spatial", "exploration",
            "PBT with a coordinate-wise merge oracle (any consistent offset scheme passes, any wrong one fails), running data offsets per (name, type, association), inputs snapshot before/after",
            "2-4 same-class inputs (points, curves, surfaces, drape models) with arbitrary vertex counts, cells over arbitrary vertex subsets in arbitrary order (trailing unreferenced vertices frequent by construction) and data sets present on some inputs only are merged; vertices must be the concatenation, every merged cell must join the coordinates of its input cell, data are concatenated with no-data fill, inputs stay unchanged.",
            "Numeric data kinds only (the merger skips text); drape inputs have >=2 prisms; ghost prisms of drape models follow merging/drape_model.py and only non-ghost content is compared.",
            "DESIGN.md 3/C16"),
    "C20": ("survey", "exploration",
            "exhaustive (pair, linking direction) grid + Hypothesis operation programs; invariants over API metadata of both sides, raw Metadata JSON of both stored nodes (plain h5py) and partner identity after re-open; copy oracle",
            "Every receiver/transmitter, receiver/base-station and potential/current pair is linked from either side and driven by generated edits of shared parameters through either side, copies (plain, cross-workspace, copy of a copy, by extent) and re-opens; both stored nodes and both API views must carry both identifiers and agree on every shared field, partners must resolve to each other after re-open, copies must be linked to each other and not to the originals (large-loop / DC: the copied transmitter side holds exactly what the copied receivers refer to).",
            "'Property groups' (component groups, resolved by name on the entity that owns the data) is compared in the stored JSON only; MT receivers have no partner and appear only as unlinked control in C12.",
            "DESIGN.md 3/C20"),
    "C17": ("geom", "exploration",
            "PBT against index formulas written from the format documentation (pure NumPy reference), setter/read histories for cache invalidation, tiling predicate for default octrees, connectivity oracle for curve parts",
            "Generated block models, 2-D grids and octrees (origin explicit or omitted, exact and arbitrary rotations/dips, negative sizes, decreasing delimiters) with interleaved geometry setters and centroid reads are compared with the documented index formulas; default octrees must tile the base grid exactly once; curve segments from parts and parts from segments are compared with a connectivity reference.",
            "Tolerance 1e-9*(1+scale); DrapeModel is in the anchors but not in the statement and is not covered.",
            "DESIGN.md 3/C17"),
    "C18": ("geom", "exploration",
            "PBT against a reference desurvey written in plain Python from the stations as read back; invariants (collar at 0, 1-Lipschitz continuity, mean direction within a leg, continuation beyond the end, repeatability) and value-to-depth pairing after generated additions",
            "Generated collars, survey tables (repeated depths, first depth > 0, any azimuth/dip), query depths and sequences of depth / interval data additions (unsorted, overlapping, collocated within or outside different tolerances, float/int/text, re-opens); every vertex must sit at desurvey(depth), every cell must join desurvey(from)/desurvey(to), and every added value must be found at a support within tolerance of where it was added.",
            "Direction convention (azimuth clockwise from north, dip negative down) taken from the user guide and the default survey, verified on the vertical hole; tolerance 1e-6*(1+depth); 'continues the last direction' accepts the last leg's mean or the last station's direction.",
            "DESIGN.md 3/C18"),
    "C14": ("uijson", "exploration",
            "round-trip PBT over ui.json dictionaries assembled from every template with arbitrary member combinations and values of each form's domain; oracle: data/enabled equality before write vs after read, equality with the generated value outside look-alike classes, promote/demote inverses, strict JSON",
            "Generated ui.json dictionaries (1-10 forms from every templates.* function, optional / group / groupOptional / dependency / multiSelect / isValue members, booleans, big integers, floats incl. infinities and sub-normals, Unicode and look-alike strings, choices, files, entity identifiers and lists, ranges) are written and read back against a workspace fixture; parameter values and enabled states must be identical, identifiers must promote to the same entities and demote back.",
            "NaN is excluded (documented); look-alike strings ('inf', '1', uuid-shaped text, '*.geoh5', '') and forms the documentation leaves open are counted classes, not judged.",
            "DESIGN.md 3/C14"),
    "C15": ("uijson", "exploration",
            "exhaustive decision table over the optional/enabled/group/dependency switches (3960 rows x 3 values x 2 surfaces) + generated (form, value) pairs with verdict known by construction + differential statelessness over validation histories (used object vs fresh object, rejected call leaves state unchanged)",
            "The switch table is enumerated completely on every run against a decision table written from the ui.json documentation and requires_value's docstring; generated pairs check accept-invalid and reject-valid in both directions; histories of 2-8 calls on the same InputValidation / validator / EnforcerPool / Parameter / FormParameter / UIJson / InputFile must give the verdict a fresh object gives and a rejected call must leave data, ui_json, validations and parameter values unchanged.",
            "Combinations the documentation leaves open are marked unspecified, skipped and counted (288 of 16704 verdicts).",
            "DESIGN.md 3/C15"),
}

NOT_APPLICABLE = {}


def main():
    props = [json.loads(line) for line in (HERE / "properties.jsonl").read_text().splitlines() if line.strip()]
    checks = []
    for prop in props:
        pid = prop["id"]
        if pid not in CHECKS:
            continue
        engine, level, technique, text, note, ref = CHECKS[pid]
        checks.append({
            "property_id": pid,
            "quick_cmd": f"./check {pid} --tier quick",
            "thorough_cmd": f"./check {pid} --tier thorough",
            "evidence_file": f"/verif/evidence/{pid}.json",
            "replay_cmd_template": f"./check {pid} --replay {{path}}",
            "engine": engine,
            "level_claimed": {"category": level, "text": text, "design_ref": ref},
            "level_note": note,
            "technique": technique,
        })
    not_app = []
    for prop in props:
        pid = prop["id"]
        if pid in CHECKS:
            continue
        reason = NOT_APPLICABLE.get(pid, "check not built yet in this session (planned, see DESIGN.md section 3); not claimed")
        not_app.append({"property_id": pid, "reason": reason})
    manifest = {
        "version": 1,
        "setup_cmd": "/venv/bin/python -c 'import hypothesis' 2>/dev/null || /venv/bin/pip install --no-index --find-links /opt/veriftools/wheels hypothesis",
        "hooks": {
            "guard": "GEOH5PY_VERIF",
            "enable": "no source hooks: checks import geoh5py from /repo's working tree (PYTHONPATH=/repo) in fresh processes; the launcher exports GEOH5PY_VERIF=1 for symmetry only",
            "baseline_off_cmd": "cd /repo && /venv/bin/python -m pytest -ra -q -p no:cacheprovider --timeout=900 --continue-on-collection-errors",
            "source_commits": [],
            "add_only": True,
        },
        "engines": [
            {"name": "tree", "path": "vp/engines/tree.py", "serves_properties": ["C01", "C02", "C05", "C06", "C09", "C12"],
             "kind_free_text": "Hypothesis strategy for operation programs + interpreter with reference model over groups/objects/data/property groups"},
            {"name": "uijson", "path": "vp/engines/uijson.py", "serves_properties": ["C14", "C15"],
             "kind_free_text": "workspace fixture, ui.json generators from the templates, reference rules from the ui.json documentation, history interpreter"},
            {"name": "geom", "path": "vp/engines/geom.py", "serves_properties": ["C17", "C18"],
             "kind_free_text": "reference centroid / tiling / connectivity / desurvey formulas and strategies (no geoh5py import)"},
            {"name": "survey", "path": "vp/props/c20.py", "serves_properties": ["C20"],
             "kind_free_text": "survey pair builders, edit/copy/re-open programs, two-sided metadata invariants"},
            {"name": "spatial", "path": "vp/engines/spatial.py", "serves_properties": ["C13", "C16"],
             "kind_free_text": "lattice geometry builders, closed-box reference, merge oracle"},
            {"name": "faults", "path": "vp/props/c19.py", "serves_properties": ["C19"],
             "kind_free_text": "single-deletion fault enumeration over tree-built files"},
            {"name": "closing", "path": "vp/props/c11.py", "serves_properties": ["C11"],
             "kind_free_text": "tree prefix + with-block + closers + closed-access differential"},
            {"name": "readonly", "path": "vp/props/c10.py", "serves_properties": ["C10"],
             "kind_free_text": "tree-built file + twin, call interpreter for read-only vs writable"},
            {"name": "copygrid", "path": "vp/props/c12.py", "serves_properties": ["C12"],
             "kind_free_text": "subject builders for every class + copy/edit/re-open oracle"},
            {"name": "concat", "path": "vp/engines/concat.py", "serves_properties": ["C04"],
             "kind_free_text": "drillhole-group histories with a hole/table/data reference model and a raw tiling predicate"},
            {"name": "geomdata", "path": "vp/props/c07.py", "serves_properties": ["C07"],
             "kind_free_text": "geometry + data operation sequences with a tagged reference model"},
            {"name": "values", "path": "vp/engines/values.py", "serves_properties": ["C03", "C08"],
             "kind_free_text": "reflective pair discovery, value domains, reference codec for data values"},
        ],
        "checks": checks,
        "notes": "All checks are property-based: Hypothesis generates programs (plain JSON), an interpreter runs them against geoh5py imported from /repo and an explicit oracle; failures are shrunk with ddmin to replay files under /verif/replays/<id>/. Known findings: /verif/known_findings.json.",
        "not_applicable": not_app,
    }
    (HERE / "MANIFEST.json").write_text(json.dumps(manifest, indent=1) + "\n")


if __name__ == "__main__":
    main()
